#!/venv/bin/python
"""Regenerates /verif/MANIFEST.json from the table below (only properties whose check module exists are claimed)."""
import json
import os

HERE = os.path.dirname(os.path.dirname(os.path.abspath(__file__)))

# id -> (category, technique, level text, level note, design ref)
T = {
    "C01": ("exploration", "bounded-exhaustive walk of the call-configuration product on the real code, vs numerical Jacobian of NumPy",
            "Every catalogue primitive is called in every configuration of its finite alphabets (shapes up to the rank bound, broadcast "
            "patterns, scalar/array kinds, every axis spelling, keepdims, option values, passing style, call form, argnum, point) and the "
            "whole reverse-mode Jacobian (all basis cotangents) is compared with a trust-tested 6th-order numerical Jacobian of plain NumPy; "
            "non-smooth points are enumerated as tie/kink patterns and judged by one-sided directional derivatives.",
            "Data values outside the finite point alphabet, ranks/sizes above the bound are not covered; oracle = Richardson finite differences of numpy.",
            "3/C01"),
    "C02": ("exploration", "bounded-exhaustive walk of the call-configuration product on the real code, vs numerical Jacobian of NumPy",
            "Same configuration walk as C01 for every primitive with a JVP rule; the whole forward-mode Jacobian (all basis tangents) is "
            "compared with the numerical Jacobian and each tangent must have the shape/kind of the output.",
            "Finite point alphabet and rank/size bounds as C01.", "3/C02"),
    "C03": ("exploration", "exhaustive enumeration of straight-line DAG programs and parent-list graphs; path-sum reference + invocation log",
            "All straight-line programs up to n operations over logging user primitives (every operand choice, every output position), "
            "control-flow programs, and all small parent-list DAGs for toposort are enumerated; gradient = path-sum reference = forward "
            "Jacobian, each live op's rule invoked exactly once with the reference adjoint, dead ops never; accumulation patterns on (2,) arrays (a pass-through "
            "sum node, up to 4 output terms in every order and association) against a symbolic derivative.",
            "Programs up to the stated size; scalar data; the path-sum/symbolic reference is trusted.", "3/C03"),
    "C04": ("exploration", "bounded-exhaustive configuration walk; forward Jacobian vs reverse Jacobian identity and linearity on a basis",
            "On every configuration where both rules exist the forward Jacobian (basis tangents) must equal the reverse Jacobian (basis "
            "cotangents) to 1e-10 relative, and JVP/VJP must be linear on basis pairs - identities, no numerical differentiation.",
            "Finite point alphabet; identities on a basis decide them for all v, g by linearity, which is itself checked on basis pairs.", "3/C04"),
    "C05": ("exploration", "bounded-exhaustive configuration walk incl. kind-mixing alphabet; vspace equality",
            "For every configuration (plus scalar/array/complex/float32 kind mixes) vspace(VJP result)==vspace(argument) and "
            "vspace(JVP tangent)==vspace(output).", "Finite alphabets of shapes and kinds.", "3/C05"),
    "C06": ("exploration", "bounded-exhaustive configuration walk; primal under differentiation vs plain NumPy, bit-for-bit",
            "Every catalogue configuration and every re-implemented list-taking wrapper form is evaluated plainly, under make_vjp, make_jvp, "
            "value_and_grad, grad_and_aux and at nesting depth 2; results must equal NumPy's (values, shape, dtype, structure), contain no Box, "
            "and inputs must be byte-identical afterwards.", "Finite alphabets; NumPy is the reference.", "3/C06"),
    "C07": ("exploration", "bounded-exhaustive configuration walk at second order; three HVP routes + numerical derivative of the gradient",
            "For every configuration (reduced shapes) Hessian-vector products by reverse-over-reverse, forward-over-reverse and "
            "reverse-over-forward are computed for every basis vector; they must agree, be symmetric, and match a trust-tested numerical "
            "derivative of autograd's own gradient; the zero-residual Gauss-Newton Hessian must equal J^T J; third derivatives along a fixed "
            "direction by the four nestings RRR/FFF/RFR/FRF must agree and match the numerical derivative of the second; complex results of real operands "
            "(FFT family) are differentiated through their realification [Re, Im].",
            "Finite point alphabet, reduced shapes.", "3/C07"),
    "C08": ("exploration", "exhaustive enumeration of nested-operator terms (depth<=3) on the real code vs symbolic reference",
            "All nested differentiation terms up to depth 3 - every mode assignment, operator spelling, closure subset per level (including "
            "bodies that omit their own variable), evaluation-point kind and operand order - are evaluated with autograd and compared with a "
            "symbolic differentiator over named variables.", "Depth <= 3, scalar terms over sin/*/+; symbolic reference trusted.", "3/C08"),
    "C09": ("exploration", "bounded-exhaustive configuration walk with real/complex operand mixes vs numerical real Jacobian of the realification",
            "Every catalogue primitive that accepts or produces complex values is walked with every real/complex mix of its operands; reverse "
            "mode must equal conj(J_R^T conj g) and forward mode J_R v for all basis elements (1 and 1j), J_R obtained numerically from NumPy; "
            "holomorphic_grad, real-loss and FFT round-trip corollaries are checked explicitly.",
            "Finite point alphabet and shape bounds.", "3/C09"),
    "C10": ("exploration", "exhaustive enumeration of array programs x VJP/JVP call histories with read-only operands and byte snapshots",
            "All array programs up to n ops (dense, sparse, view uses) are run with read-only inputs, constants and cotangents; all call "
            "sequences up to length 3 over a 2-cotangent alphabet are applied to one VJP/JVP function; any write fault, snapshot difference or "
            "history-dependent result is a violation; every catalogue primitive is re-run with read-only operands and (co)tangents, and index arrays / "
            "masks captured by the function (writeable and frozen) must stay byte-identical.", "Programs and histories up to the stated bounds.", "3/C10"),
    "C11": ("exploration", "exhaustive enumeration of index expressions and sparse/dense use orders vs scatter-by-ids reference",
            "Every index expression from the atom alphabet on every small shape, in both modes and at second order, is compared with the exact "
            "0/1 scatter Jacobian; all orders of k sparse and m dense uses of one value (k+m bounded) are compared with the dense sum, with "
            "branch coverage of add_outgrads measured.", "Ranks <= 3/4, dims {2,3}; atom alphabet finite.", "3/C11"),
    "C12": ("exploration", "exhaustive enumeration of container nestings x access programs vs leaf-wise closed form",
            "All container nestings up to the depth bound crossed with access programs (index paths, slices, +, iteration, dict methods, "
            "constructors) in both modes; gradient must be the leaf-wise closed form in the same nesting; flatten/unflatten inverse and "
            "commuting with grad.", "Depth/arity bounds.", "3/C12"),
    "C13": ("exploration", "exhaustive enumeration of value types x shapes x dtypes x nestings; axioms as identities on a basis",
            "For every value of the type alphabet the vector-space axioms are checked on the whole standard basis plus fixed generic vectors "
            "and a scalar alphabet; vspace equality is checked on all pairs.", "Finite type/shape alphabet.", "3/C13"),
    "C14": ("exploration", "exhaustive enumeration of constant/piecewise-constant programs x operators x argument kinds",
            "Independent and piecewise-constant functions crossed with every operator and argument kind must give exact zeros in the right "
            "space; every non-differentiable function returns NumPy's plain value; x*h(x) differentiates to h(x) exactly.",
            "Finite alphabets.", "3/C14"),
    "C15": ("exploration", "exhaustive namespace x argument-template scan on the real code: outcome must be raise-or-correct",
            "Every exported callable is called with every argument template up to the length bound with the differentiated array in every "
            "position; whenever NumPy's value genuinely varies with it, each mode must either raise or return a Jacobian matching the "
            "numerical one; every declared unsupported option must raise, and every call of a list of rarely used keyword options / spellings must either "
            "raise or give the derivative of NumPy's result with that option.", "Template length and atom alphabet bounded; keyword-option list finite.", "3/C15"),
    "C16": ("exploration", "exhaustive enumeration of in-shape x out-shape x operator x argnum layouts vs closed-form Jacobians",
            "For all input/output shapes of rank 0..3 and two closed-form families, every differential operator and argnum/kwargs layout "
            "is compared with einsum contractions of the closed-form Jacobian/Hessian.", "dims in {1,2}; two function families.", "3/C16"),
    "C17": ("exploration", "exhaustive enumeration of arity x subset x registration API x trace-level assignment; rule-argument log",
            "User primitives of every arity, differentiated subset, registration API, level assignment and kwargs are registered through "
            "autograd.extend; logged rule arguments and routed gradients are compared with the closed form; every small program is also run "
            "under checkpoint up to third order.", "Arity and program-size bounds.", "3/C17"),
    "C18": ("exploration", "exhaustive enumeration of the checker's own Gaussian draws on an equal-weight lattice",
            "numpy.random's draw functions are replaced by a chooser; all draw sequences over a K-point lattice are enumerated for correct and "
            "deliberately defective user primitives (single modes and the default both-modes call); correct rules must always pass, defects must be "
            "rejected on >= 99% of lattice weight.",
            "The probability bound is decided for the discretised distribution.", "3/C18"),
    "C19": ("fault_enumeration", "explicit-state BFS over global-state fingerprints with injected failures; canary set vs fresh interpreter",
            "Breadth-first search over histories of succeeding and failing differentiations (fault at k-th forward op, k-th backward rule, "
            "trace exit; every nesting and catching level); in every reached global state a canary set must give results bit-identical to a "
            "fresh interpreter and equal to the symbolic reference; every catalogue leaf is additionally evaluated in forward and reversed order in "
            "one process, alone in a fresh fork, and twice with the same array objects changed in place in between.", "History length bound; event alphabet finite.", "3/C19"),
    "C20": ("exploration", "stateless/explicit-state exploration of thread schedules of the real code under a controlled scheduler",
            "Real threads are serialised by a baton scheduler with scheduling points from sys.monitoring; all interleavings at the shared "
            "accesses (explicit-state, unbounded preemptions) and all schedules with bounded preemptions at function granularity are explored; "
            "each thread must get its solo result (thread programs: first/second order, forward/reverse, shared operators, and first- against second-order "
            "differentiation through the sort / var / std / max / cumsum / indexing rules on same-shape arrays); every execution starts from the pristine library state (all module-level containers and scalars "
            "restored).", "Sequentially consistent interleaving at instrumented points; 2-3 threads.", "3/C20"),
}


UNFINISHED = set()


def main():
    checks, na = [], []
    for pid, (cat, tech, text, note, ref) in T.items():
        if pid not in UNFINISHED and os.path.exists(os.path.join(HERE, "mc", "props", pid.lower() + ".py")):
            checks.append(dict(property_id=pid, quick_cmd="./check %s --tier quick" % pid,
                               thorough_cmd="./check %s --tier thorough" % pid,
                               evidence_file="evidence/%s.json" % pid, replay_cmd_template="./check replay {path}",
                               engine="mc", level_claimed=dict(category=cat, text=text, design_ref="DESIGN.md section " + ref),
                               level_note=note, technique=tech))
        else:
            na.append(dict(property_id=pid, reason="check not built yet (work in progress; planned in DESIGN.md section %s)" % ref))
    m = dict(version=1,
             setup_cmd="/venv/bin/python -c \"import sys; sys.path.insert(0,'/repo'); import numpy, autograd; print('ok', numpy.__version__)\"",
             hooks=dict(guard="AUTOGRAD_VERIF", enable="no source hooks exist; checks import autograd from /repo via PYTHONPATH (./check sets AUTOGRAD_VERIF=1)",
                        baseline_off_cmd="cd /repo && /venv/bin/python -m pytest -ra -q -p no:cacheprovider --timeout=900 --continue-on-collection-errors",
                        source_commits=[], add_only=True),
             engines=[dict(name="mc", path="mc/", serves_properties=[c["property_id"] for c in checks],
                           kind_free_text="hand-written stateless choice-tree / explicit-state explorer driving the real autograd code (Python)")],
             checks=checks, not_applicable=na,
             notes="All checks explore the implementation in /repo directly (no separate model). Exit 0 held / 1 VIOLATION / 2 HARNESS-ERROR.")
    with open(os.path.join(HERE, "MANIFEST.json"), "w") as f:
        json.dump(m, f, indent=1)
    print("claimed", [c["property_id"] for c in checks])


if __name__ == "__main__":
    main()
