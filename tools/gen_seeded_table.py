#!/venv/bin/python
"""Rewrites the seeded-change table in DESIGN.md from seeded/*/meta.json."""
import glob, json, os, re
HERE = os.path.dirname(os.path.dirname(os.path.abspath(__file__)))
rows = []
for d in sorted(glob.glob(os.path.join(HERE, "seeded", "*"))):
    m = json.load(open(os.path.join(d, "meta.json")))
    name = os.path.basename(d)
    files = sorted(set(re.findall(r"^\+\+\+ b/(\S+)", open(os.path.join(d, "patch.diff")).read(), re.M)))
    needs = " ".join(str(m.get("needs", "")).split())[:230].replace("|", "/")
    det = m.get("detected_by") or []
    det = [x.split(" ")[0] for x in det]
    origin = "agent" if "agent" in m.get("origin", "") and "own" not in m.get("origin", "") else "own"
    rows.append("| `%s` (%s; %s; breaks %s) | %s | %s |" % (name, origin, ", ".join(f.replace("autograd/", "") for f in files), m["property"], needs,
                                                      ", ".join(det) if det else "**missed**"))
table = "\n".join(rows)
p = os.path.join(HERE, "DESIGN.md")
s = open(p).read()
if "SEEDED_TABLE" in s:
    s = s.replace("SEEDED_TABLE", "<!-- SEEDED:BEGIN -->\n" + table + "\n<!-- SEEDED:END -->")
else:
    s = re.sub(r"<!-- SEEDED:BEGIN -->.*<!-- SEEDED:END -->", lambda _: "<!-- SEEDED:BEGIN -->\n" + table + "\n<!-- SEEDED:END -->", s, flags=re.S)
open(p, "w").write(s)
print(len(rows), "rows")
