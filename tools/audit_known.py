#!/venv/bin/python
"""audit_known.py <PROP> [quick|thorough]: for every known: entry of a catalogue-walk property, how many leaves match its feature pattern and how many
of those actually violate (any kind, the entry's mode).  A low ratio means the entry is broader than the defect and could mask a new violation."""
import collections, importlib, os, re, sys, warnings
sys.path.insert(0, "/verif"); sys.path.insert(0, os.environ.get("VERIF_REPO", "/repo"))
warnings.simplefilter("ignore")
from mc import findings, walk as W
from mc.explore import leaves, Skip
prop = sys.argv[1]; quick = (sys.argv[2] if len(sys.argv) > 2 else "quick") == "quick"
mod = importlib.import_module("mc.props." + prop.lower())
known, _ = findings.load_known()
known = [k for k in known if k.fields.get("property") == prop]
byprim = collections.defaultdict(list)
for k in known:
    byprim[k.fields.get("prim")].append(k)
stats = {k.line: [0, 0] for k in known}
for hname, fac in mod.HARNESSES.items():
    if not hname.startswith("cat:"):
        continue
    h, judge = fac(quick, 0)
    first = True
    for ch, out in leaves(h, [], max_leaves=60000):
        if isinstance(out, Skip):
            continue
        case, which = out[0], out[1]
        ks = byprim.get(case.name, [])
        if not ks:
            break
        r = judge(ch, out)
        vs = r["v"] if isinstance(r["v"], list) else ([r["v"]] if r["v"] else [])
        feats = {k_: str(v_) for k_, v_ in W.base_features(case, which).items()}
        for k in ks:
            ok = True
            for fk, want in k.where.items():
                have = feats.get(fk)
                if have is None or (want.startswith("~") and not re.fullmatch(want[1:], have)) or (not want.startswith("~") and have != want):
                    ok = False
                    break
            if ok:
                st = stats[k.line]
                st[0] += 1
                st[1] += int(any((k.fields.get("mode") in ("*", v["mode"])) for v in vs))
for line, (n, w) in sorted(stats.items(), key=lambda kv: (kv[1][1] / kv[1][0]) if kv[1][0] else 2):
    if n:
        print("%5d/%-5d %3d%%  %s" % (w, n, 100 * w // n, line[:150]))
