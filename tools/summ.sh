#!/bin/bash
# summarise "# harness prim= mode= kind=" comment lines of a check run by (prim, mode, kind)
grep -E "^  # " | sed -E 's/^  # ([^ ]+) prim=([^ ]+) mode=([^ ]+) kind=([^ ]+) features=.* x([0-9]+)$/\2 \3 \4 \5/' | awk '{k=$1" "$2" "$3; c[k]+=$4; g[k]++} END{for(k in c) print k, "groups="g[k], "n="c[k]}' | sort
