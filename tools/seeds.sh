#!/bin/bash
# seeds.sh <seed>... : run every quick check under each VERIF_SEED from a fresh process; print anything that is not silent
for s in "$@"; do
  for i in $(seq -w 1 20); do
    out=$(VERIF_SEED=$s /verif/check C$i 2>&1); rc=$?
    if [ $rc -ne 0 ] || echo "$out" | grep -q -E "^(VIOLATION|HARNESS)"; then echo "SEED $s C$i rc=$rc"; echo "$out" | grep -E "^(VIOLATION|HARNESS|  #)" | head -5 | cut -c1-300; fi
  done
  echo "seed $s done"
done
