RC.append(("hessian of a function of an empty (size-0) array: jacobian stacks an empty list of VJP results and numpy.stack raises ValueError instead of returning an empty zero Hessian",
           [("C14", "hessian", "rev", "raised", "argument:empty,operator:hessian")]))
RC.append(("np.linalg.solve with a batched matrix and a vector right-hand side that broadcasts: wrong first-order gradient (see C01) hence a non-symmetric, wrong second derivative",
           [("C07", "solve", "RR", "hessian-not-symmetric", "batch_broadcast:True,rhs_vector:True"), ("C07", "solve", "RR", "wrong-value", "batch_broadcast:True,rhs_vector:True")]))
RC.append(("np.linalg.norm with a tuple of negative axes: wrong first-order rule (see C01) hence disagreeing / asymmetric / wrong second derivatives",
           [("C07", "norm", "*", k, "axis_sign:tuple-neg") for k in ("hessian-not-symmetric", "routes-disagree", "wrong-value", "wrong-shape")]))
RC.append(("np.diag of a non-square 2-D array (namespace scan; same root cause as the C01 entry)", [("C15", "diag", "rev", "wrong-shape", "shape_rank:2")]))
RC.append(("forward-mode np.sort / np.partition of 2-D arrays (namespace scan; same root cause as the C02 entry)",
           [("C15", "sort", "fwd", "wrong-shape", "shape_rank:2"), ("C15", "partition", "fwd", "wrong-shape", "shape_rank:2"),
            ("C15", "sort", "fwd", "silently-wrong", "shape_rank:2"), ("C15", "partition", "fwd", "silently-wrong", "shape_rank:2")]))
RC.append(("forward-mode np.linspace with an array-valued start or stop: the JVP rebuilds linspace(g, 0) and loses the other operand's shape",
           [("C15", "linspace", "fwd", "wrong-shape", "shape_rank:0")]))
RC.append(("np.clip of a scalar/0-d x against array-valued bounds: the VJP is not summed back to x's shape",
           [("C15", "clip", "rev", "wrong-shape", "shape_rank:0")]))
RC.append(("np.linspace with array-valued start/stop (NumPy broadcasts them): the reverse rule contracts the wrong axis and returns silently wrong or misshapen gradients",
           [("C15", "linspace", "rev", "silently-wrong", "shape_rank:~[12]"), ("C15", "linspace", "rev", "wrong-shape", "shape_rank:~[012]"),
            ("C15", "linspace", "fwd", "silently-wrong", "shape_rank:~[12]"), ("C15", "linspace", "fwd", "wrong-shape", "shape_rank:~[12]")]))
RC.append(("forward-mode np.diff with prepend/append: the 'same' rule applies diff to the tangent *with the primal prepend/append values* instead of zeros",
           [("C15", "diff", "fwd", "silently-wrong", "template_len:4")]))
