RC.append(("hessian of a function of an empty (size-0) array: jacobian stacks an empty list of VJP results and numpy.stack raises ValueError instead of returning an empty zero Hessian",
           [("C14", "hessian", "rev", "raised", "argument:empty,operator:hessian")]))
