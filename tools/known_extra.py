RC.append(("np.linalg.solve with a batched matrix and a vector right-hand side that broadcasts: wrong first-order gradient (see C01) hence a non-symmetric, wrong second derivative",
           [("C07", "solve", "RR", "hessian-not-symmetric", "batch_broadcast:True,rhs_vector:True"), ("C07", "solve", "RR", "wrong-value", "batch_broadcast:True,rhs_vector:True")]))
RC.append(("np.diag of a non-square 2-D array (namespace scan; same root cause as the C01 entry)", [("C15", "diag", "rev", "wrong-shape", "shape_rank:2")]))
RC.append(("forward-mode np.diff with prepend/append: the 'same' rule applies diff to the tangent *with the primal prepend/append values* instead of zeros",
           [("C15", "diff", "fwd", "silently-wrong", "template_len:4")]))
# ----- C09: complex-valued operands (triaged classes)
_MIX = "arg_cplx:real,ops_cplx:~.*c.*"
RC.append(("gradient w.r.t. a REAL operand that is combined with complex operands comes back complex (no match_complex in the rule), so it does not live in the argument's space",
           [("C09", p, "rev", "wrong-shape", _MIX) for p in ("append", "array", "column_stack", "concatenate", "dstack", "hstack", "vstack", "row_stack", "r_", "c_", "select",
                                                             "einsum", "inner", "solve", "stack", "kron")]))
RC.append(("forward mode of a binary/selection function with one real and one complex operand: the tangent keeps the real operand's kind instead of the complex output's",
           [("C09", p, "fwd", "wrong-shape", "ops_cplx:~(cr|rc|rcr|crc)") for p in ("maximum", "minimum", "fmax", "fmin", "where", "select", "linspace")]))
RC.append(("np.array([x, y], ndmin=3) (see C01 entry) with complex members", [("C09", "array", "fwd", "wrong-value", "ndmin:True,list_input:True"),
                                                                           ("C09", "array", "rev", "wrong-shape", "ndmin:True,list_input:True")]))
RC.append(("np.diag of a non-square matrix (see C01 entry)", [("C09", "diag", "rev", "wrong-shape", "rank:2,square:False")]))
RC.append(("np.make_diagonal allocates a float array, so complex input loses its imaginary part: wrong primal value and real-only derivatives (also behind np.diagonal's VJP)",
           [("C09", "make_diagonal", "rev", "wrong-shape", "arg_cplx:complex"), ("C09", "make_diagonal", "fwd", "wrong-shape", "arg_cplx:complex"),
            ("C09", "diagonal", "rev", "wrong-shape", "make_diagonal_supported:True,arg_cplx:complex")]))
RC.append(("np.diagonal(axis1=-1, axis2=-2) with unequal last dimensions (see C01 entry)", [("C09", "diagonal", "rev", "wrong-shape", "make_diagonal_supported:True,square:False")]))
RC.append(("np.kron beyond 2-D (see C01 entry)", [("C09", "kron", "rev", "wrong-value", "ranks:~[0-9].[3-9]")]))
RC.append(("np.linalg.norm of a complex array: the reverse rule returns the conjugate of the documented gradient and the forward rule a complex tangent for a real output",
           [("C09", "norm", "rev", "wrong-value", "arg_cplx:complex"), ("C09", "norm", "fwd", "wrong-shape", "arg_cplx:complex"),
            ("C09", "norm", "rev", "wrong-value", "ord:inf,matrix_norm:False,keepdims:None"), ("C09", "norm", "fwd", "wrong-value", "ord:inf,matrix_norm:False,keepdims:None")]))
RC.append(("np.linalg.pinv of a complex matrix: the rule uses plain transposes where conjugate transposes are needed", [("C09", "pinv", "rev", "wrong-value", "arg_cplx:complex")]))
RC.append(("np.linalg.slogdet of a complex matrix: the cotangent of the (complex, non-constant) sign output is ignored", [("C09", "slogdet", "rev", "wrong-value", "arg_cplx:complex,use:~(\\[0\\]|tuple)")]))
RC.append(("np.linalg.solve with broadcasting batch dimensions (see C01 entry), complex operands",
           [("C09", "solve", "rev", "wrong-shape", "batch_broadcast:True"), ("C09", "solve", "rev", "wrong-value", "batch_broadcast:True,rhs_vector:True")]))
RC.append(("rfftn / irfftn with a repeated axis: accepted (unlike the complex transforms) and differentiated with factors for distinct axes",
           [("C09", p, "rev", "wrong-value", "axes:repeated") for p in ("rfftn", "irfftn")]))
RC.append(("np.full((), x) with a (1,)-shaped fill value (see C05 entry)", [("C09", "full", "rev", "wrong-shape", "fill:arr1")]))
RC.append(("np.array(complex_value, dtype=float): NumPy drops the imaginary part; the gradient w.r.t. the complex argument comes back real",
           [("C09", "array", "rev", "wrong-shape", "arg_cplx:complex,form:~.*dtype.*")]))
RC.append(("vstack/hstack/column_stack/dstack of a real traced array with a complex constant: gradient w.r.t. the real array is complex",
           [("C09", p, "rev", "wrong-shape", "mixed:True,arg_cplx:real") for p in ("vstack", "hstack", "column_stack", "dstack", "row_stack")]))
RC.append(("np.select of 0-d choices with mixed real/complex members: the re-implementation rebuilds the result from a real-typed list and loses the imaginary part",
           [("C09", "select", "rev", "wrong-shape", "rank:0,ops_cplx:~rc.*"), ("C09", "select", "fwd", "wrong-shape", "rank:0,ops_cplx:~rc.*")]))
RC.append(("np.kron beyond 2-D / np.linalg.norm(ord=inf): wrong first-order rules (see C01) also give a wrong Gauss-Newton Hessian",
           [("C07", "kron", "*", "gauss-newton-hessian-wrong", "ranks:~[0-9].[3-9]"), ("C07", "norm", "*", "gauss-newton-hessian-wrong", "ord:inf,matrix_norm:False,keepdims:None")]))
RC.append(("np.linalg.eigh: the rule skips its eigenvector term when the eigenvector cotangent is zero-VALUED (`if anp.any(vg)`), even when that cotangent is a traced quantity; "
           "second derivatives of a function that depends on eigenvectors are wrong wherever its first-order eigenvector cotangent vanishes (zero-residual least squares: Hessian 0 instead of J^T J)",
           [("C07", "eigh", "*", "gauss-newton-hessian-wrong", "observable:~(fun|proj)")]))
RC.append(("np.linalg.solve with batched matrix and broadcasting vector right-hand side (see C01 entry): wrong Gauss-Newton Hessian",
           [("C07", "solve", "*", "gauss-newton-hessian-wrong", "batch_broadcast:True,rhs_vector:True"),
            ("C07", "solve", "*", "third-order-wrong-value", "batch_broadcast:True,rhs_vector:True"),
            ("C07", "solve", "*", "third-order-routes-disagree", "batch_broadcast:True,rhs_vector:True")]))
RC.append(("np.einsum where a LABELLED size-1 dimension broadcasts against a larger dimension with the same label: the gradient of the larger operand is not broadcast back up "
           "(and comes out with the size-1 shape)",
           [(p, "einsum", "rev", k, "size1_label_broadcast:True,argnum:~(1|joint)") for p, k in (("C01", "wrong-shape"), ("C05", "wrong-structure"), ("C09", "wrong-shape"), ("C01", "wrong-value"))]))
RC.append(("ArrayBox.flatten is an alias of ravel: under differentiation x.flatten() returns a view of its input where ndarray.flatten() returns a copy",
           [("C06", "ravel", "*", "result-aliases-input", "form:x.fl")]))
RC.append(("np.einsum in the interleaved (operand, sublist) convention WITHOUT an Ellipsis never un-broadcasts: a labelled size-1 dimension that was broadcast is not summed back",
           [(p, "einsum", "rev", k, "convention:interleaved,size1_label_broadcast:True") for p, k in (("C01", "wrong-shape"), ("C05", "wrong-structure"), ("C09", "wrong-shape"), ("C01", "wrong-value"))]))

_BIN = ["add", "subtract", "multiply", "divide", "true_divide", "maximum", "minimum", "fmax", "fmin", "logaddexp", "logaddexp2", "mod", "remainder",
        "power", "arctan2", "hypot"]
RC.append(("binary element-wise functions: the gradient w.r.t. a default-precision (float64 / Python float) argument takes the dtype of the OTHER operand when that "
           "one has another precision (float32 partner of a scalar -> float32, longdouble partner -> float128): unbroadcast restores shape and realness but not the dtype",
           [("C05", p_, "rev", "wrong-structure", "kinds:~.*(ld|f32).*") for p_ in _BIN]))

RC.append(("np.sinc at 0 (a smooth point, derivative 0): the rule divides by pi*x**2 and returns NaN in both modes",
           [("C01", "sinc", "rev", "not-finite", "point:kink"), ("C02", "sinc", "fwd", "not-finite", "point:kink")]))
RC.append(("np.prod of an array containing a zero (a smooth point: the derivative is the product of the other entries): the rule computes ans / x and "
           "returns NaN at the zero entries (reverse) or everywhere (forward)",
           [("C01", "prod", "rev", "not-finite", "point:kink"), ("C02", "prod", "fwd", "not-finite", "point:kink")]))
RC.append(("np.linalg.det of a singular matrix (det is a polynomial, its gradient is the cofactor matrix): the rule computes ans * inv(x).T and raises LinAlgError",
           [("C01", "det", "rev", "raised-at-handled-kink", "point:kink"), ("C02", "det", "fwd", "raised-at-handled-kink", "point:kink")]))

RC.append(("np.sum(x, axis=k, dtype=int): the result is integer-valued (piecewise constant in x) but the rules of sum ignore dtype and let the derivative flow as for a float sum",
           [("C14", "-", "rev", "wrong-derivative", "h:~.*dtype=int.*"), ("C14", "-", "fwd", "wrong-derivative", "h:~.*dtype=int.*")]))

RC.append(("np.split with unsorted (overlapping) indices, e.g. np.split(x, [3, 1]): the VJP concatenates the pieces' cotangents and returns a gradient that is longer than the argument",
           [("C15", "concatenate", "rev", "silently-wrong-with-option", "case_id:split_with_unsorted_indices")]))

RC.append(("rfftn / irfftn with a repeated axis (see the C09 entry: accepted, unlike the complex transforms, and differentiated with factors for distinct axes): the wrong first-order rule "
           "also gives a wrong Gauss-Newton Hessian of the realified transform",
           [("C07", "rfftn", "*", "gauss-newton-hessian-wrong", "axes:repeated,complexified:output-realified"),
            ("C07", "irfftn", "*", "gauss-newton-hessian-wrong", "axes:repeated")]))
