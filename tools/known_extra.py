RC.append(("hessian of a function of an empty (size-0) array: jacobian stacks an empty list of VJP results and numpy.stack raises ValueError instead of returning an empty zero Hessian",
           [("C14", "hessian", "rev", "raised", "argument:empty,operator:hessian")]))
RC.append(("np.linalg.solve with a batched matrix and a vector right-hand side that broadcasts: wrong first-order gradient (see C01) hence a non-symmetric, wrong second derivative",
           [("C07", "solve", "RR", "hessian-not-symmetric", "batch_broadcast:True,rhs_vector:True"), ("C07", "solve", "RR", "wrong-value", "batch_broadcast:True,rhs_vector:True")]))
RC.append(("np.linalg.norm with a tuple of negative axes: wrong first-order rule (see C01) hence disagreeing / asymmetric / wrong second derivatives",
           [("C07", "norm", "*", k, "axis_sign:tuple-neg") for k in ("hessian-not-symmetric", "routes-disagree", "wrong-value", "wrong-shape")]))
