#!/bin/bash
# record_known.sh <tier> <seed>... : (re)record, for every property that has known: entries, the exact set of leaves that violate inside the known classes
# on the CURRENT tree (known_leaves/<ID>.<tier>.<seed>.txt).  Run after any change to a catalogue alphabet, to KNOWN_FINDINGS.txt or to /repo.
tier=$1; shift
props=$(grep "^known:" /verif/KNOWN_FINDINGS.txt | sed 's/.*property=\(C[0-9]*\).*/\1/' | sort -u)
for s in "$@"; do
  for p in $props; do
    out=$(VERIF_RECORD_KNOWN=1 VERIF_SEED=$s /verif/check $p --tier $tier 2>&1); rc=$?
    echo "$p $tier seed=$s rc=$rc $(wc -l < /verif/known_leaves/$p.$tier.$s.txt) leaves $(echo "$out" | grep -c '^VIOLATION') violations"
  done
done
