#!/venv/bin/python
"""seed.py <name> <PROP> <patch.diff> <demo.py|-> <needs text> [check ids...]
Validates a candidate property-breaking change in a scratch copy of /repo (never in /repo itself):
  tests pass with the patch; the demonstration fails with it and passes without it; which of our checks report it.
Writes /verif/seeded/<name>/{patch.diff, demo.py, meta.json}.  The scratch copy is removed afterwards."""
import json, os, shutil, subprocess, sys, tempfile
name, prop, patch, demo, needs = sys.argv[1:6]
checks = sys.argv[6:] or [prop]
patch = os.path.abspath(patch)
d = tempfile.mkdtemp(prefix="seed.", dir="/tmp")
meta = dict(property=prop, needs=needs, origin=os.environ.get("SEED_ORIGIN", "independent sub-agent (given only the property text and a scratch worktree)"))
try:
    subprocess.check_call(["rsync", "-a", "--exclude", ".git", "--exclude", "_seed", "--exclude", "__pycache__", "/repo/", d + "/"])
    env = dict(os.environ, PYTHONPATH=d)
    def run_demo():
        if demo == "-":
            return None
        return subprocess.run(["/venv/bin/python", os.path.abspath(demo)], env=env, cwd=d, capture_output=True, text=True, timeout=600).returncode
    meta["demo_rc_without_patch"] = run_demo()
    r = subprocess.run(["patch", "-p1", "-s", "-i", patch], cwd=d, capture_output=True, text=True)
    if r.returncode != 0:
        print("PATCH FAILED", r.stdout, r.stderr); sys.exit(3)
    t = subprocess.run("/venv/bin/python -m pytest -q -p no:cacheprovider -n 16 tests 2>&1 | tail -1", shell=True, cwd=d, env=env, capture_output=True, text=True)
    meta["tests_with_patch"] = t.stdout.strip()[-120:]
    meta["tests_pass"] = " passed" in t.stdout and "failed" not in t.stdout and "error" not in t.stdout.lower()
    meta["demo_rc_with_patch"] = run_demo()
    det = {}
    for c in checks:
        p = subprocess.run(["/verif/check", c], env=dict(os.environ, VERIF_REPO=d), capture_output=True, text=True)
        nv = sum(1 for l in p.stdout.splitlines() if l.startswith("VIOLATION"))
        det[c] = dict(rc=p.returncode, violation_lines=nv, harness_error="HARNESS-ERROR" in p.stdout)
    meta["checks"] = det
    meta["detected_by"] = [c for c, v in det.items() if v["rc"] == 1]
    meta["ran"] = "tools/seed.py (scratch copy of /repo + patch; repo test-suite; demo with/without; ./check with VERIF_REPO)"
finally:
    shutil.rmtree(d, ignore_errors=True)
out = os.path.join("/verif/seeded", name)
valid = meta["tests_pass"] and (demo == "-" or (meta["demo_rc_without_patch"] == 0 and meta["demo_rc_with_patch"] not in (0, None)))
meta["confirmed"] = bool(valid)
print(json.dumps(meta, indent=1))
if valid or os.environ.get("SEED_FORCE"):
    os.makedirs(out, exist_ok=True)
    shutil.copy(patch, os.path.join(out, "patch.diff"))
    if demo != "-":
        shutil.copy(demo, os.path.join(out, "demo.py"))
    json.dump(meta, open(os.path.join(out, "meta.json"), "w"), indent=1)
    print("KEPT", out)
else:
    print("NOT KEPT (not confirmed)")
