#!/bin/bash
# run the thorough tier of the listed checks one after the other; print summary + any non-silent lines
for id in "$@"; do
  s=$(date +%s); out=$(/verif/check $id --tier thorough 2>&1); rc=$?
  echo "== $id rc=$rc $(( $(date +%s) - s ))s"; echo "$out" | grep -E "^(C[0-9]+ thorough|VIOLATION|HARNESS|  #)" | cut -c1-300 | head -12
done
