#!/venv/bin/python
"""Generates the `known:` lines of /verif/KNOWN_FINDINGS.txt from the triaged root-cause table below.
Run by hand after triage (never at check time); `fixed:` lines and comments in the file are preserved."""
import os

HERE = os.path.dirname(os.path.dirname(os.path.abspath(__file__)))
# root cause: (description, [(property, prim, mode, kind, where)])
RC = [
 ("np.array([x, y], ndmin=3): the ndmin axes are not squeezed back for list input, so the gradient of an element has the wrong shape (reverse) and the tangent is duplicated (forward)",
  [("C01", "array", "rev", "wrong-shape", "ndmin:True,list_input:True,argnum:0"), ("C05", "array", "rev", "wrong-structure", "ndmin:True,list_input:True,argnum:0"),
   ("C02", "array", "fwd", "wrong-value", "ndmin:True,list_input:True,argnum:0")]),
 ("np.diag of a non-square 2-D array: the VJP np.diag(g, k) is square, not of the argument's shape",
  [("C01", "diag", "rev", "wrong-shape", "rank:2,square:False"), ("C05", "diag", "rev", "wrong-structure", "rank:2,square:False")]),
 ("np.diagonal(axis1=-1, axis2=-2) of an array whose last two dimensions differ: make_diagonal rebuilds a square block",
  [("C01", "diagonal", "rev", "wrong-shape", "make_diagonal_supported:True,square:False"),
   ("C05", "diagonal", "rev", "wrong-structure", "make_diagonal_supported:True,square:False")]),
 ("np.full((), x) with a (1,)-shaped fill value: gradient comes back 0-d",
  [("C05", "full", "rev", "wrong-structure", "fill:arr1"), ("C01", "full", "rev", "wrong-shape", "fill:arr1")]),
 ("np.kron whose SECOND operand has more than two dimensions: grad_kron groups the wrong axes and returns silently wrong values",
  [("C01", "kron", "rev", "wrong-value", "ranks:~[0-9].[3-9]"), ("C04", "kron", "fwd-vs-rev", "not-adjoint", "ranks:~[0-9].[3-9]")]),
 ("np.linalg.norm(ord=inf): passes the 'ord > 1' support test and evaluates the p-norm formula with p=inf, giving NaN in both modes",
  [("C01", "norm", "rev", "wrong-value", "ord:inf,matrix_norm:False,keepdims:None"), ("C02", "norm", "fwd", "wrong-value", "ord:inf,matrix_norm:False,keepdims:None"),
   ("C04", "norm", "fwd-vs-rev", "not-adjoint", "ord:inf,matrix_norm:False,keepdims:None")]),
 ("np.linalg.solve with batch dimensions that broadcast between a and b: gradients are not summed back to the operand's shape",
  [("C01", "solve", "rev", "wrong-shape", "batch_broadcast:True"), ("C05", "solve", "rev", "wrong-structure", "batch_broadcast:True"),
   ("C01", "solve", "rev", "wrong-value", "batch_broadcast:True,rhs_vector:True")]),
]
EXTRA = os.path.join(HERE, "tools", "known_extra.py")
if os.path.exists(EXTRA):
    exec(open(EXTRA).read())

path = os.path.join(HERE, "KNOWN_FINDINGS.txt")
keep = [l.rstrip("\n") for l in open(path) if not l.startswith("known:")]
lines = []
for text, items in RC:
    for prop, prim, mode, kind, where in items:
        lines.append("known: property=%s prim=%s mode=%s kind=%s where=%s :: %s" % (prop, prim, mode, kind, where, text))
# entries that matched nothing in BOTH tiers on the current tree (tools/prune_known.py after a full quick + thorough run) are dropped, so
# that a stale entry cannot mask a new violation
PRUNED = os.path.join(HERE, "tools", "pruned_known.txt")
if os.path.exists(PRUNED):
    drop = set(l.strip() for l in open(PRUNED) if l.strip())
    lines = [l for l in lines if l.split(" :: ")[0] not in drop]
with open(path, "w") as f:
    f.write("\n".join(keep + lines) + "\n")
print("known entries:", len(lines))
