#!/venv/bin/python
"""triage.py <PROP>...: run each check with confirmation off on a clean replay dir and print, per (prim, mode, kind),
the values every feature takes among the violating groups (to write KNOWN_FINDINGS patterns)."""
import collections, glob, json, os, shutil, subprocess, sys
for prop in sys.argv[1:]:
    shutil.rmtree('/verif/replays/' + prop, ignore_errors=True)
    env = dict(os.environ, VERIF_NO_CONFIRM='1')
    out = subprocess.run(['/verif/check', prop] + (['--tier', os.environ['VERIF_TIER']] if os.environ.get('VERIF_TIER') else []), env=env, capture_output=True, text=True).stdout
    print('=====', prop, out.strip().splitlines()[-1][:200])
    if 'HARNESS-ERROR' in out: print(out[-1500:])
    groups = collections.defaultdict(list)
    for f in glob.glob('/verif/replays/%s/*.json' % prop):
        v = json.load(open(f))
        groups[(v['harness'], v['prim'], v['mode'], v['kind'])].append(v)
    for key, vs in sorted(groups.items()):
        feats = collections.defaultdict(set)
        for v in vs:
            for k, x in v['features'].items(): feats[k].add(x)
        n = sum(v['occurrences_in_run'] for v in vs)
        print(key, 'groups=%d n=%d' % (len(vs), n))
        print('    ', {k: sorted(x)[:8] for k, x in feats.items()})
        print('     e.g.', (vs[0]['config'] or {}).get('expr') if isinstance(vs[0]['config'], dict) else vs[0]['config'], '| obs', str(vs[0]['observed'])[:100])
