#!/venv/bin/python
"""Re-evaluates which checks report each seeded change (property's own check + checks recorded earlier + a few related ones) and rewrites
seeded/*/meta.json 'detected_by' / 'checks'.  Does not re-run the repository's tests or the demonstrations (those were confirmed when the
change was kept)."""
import glob, json, os, shutil, subprocess, sys, tempfile
RELATED = {"C01": ["C04", "C05"], "C02": ["C04"], "C03": ["C10", "C11", "C17"], "C04": ["C01", "C02"], "C05": ["C01", "C09"], "C06": ["C10", "C12"], "C07": ["C17"],
           "C08": ["C19", "C14"], "C09": ["C05"], "C10": ["C03", "C11"], "C11": ["C10"], "C12": [], "C13": [], "C14": ["C08", "C17"], "C15": ["C09"], "C16": [],
           "C17": ["C03"], "C18": [], "C19": [], "C20": []}
only = sys.argv[1:]
for d in sorted(glob.glob("/verif/seeded/*")):
    name = os.path.basename(d)
    if only and not any(name.startswith(o) for o in only):
        continue
    mp = os.path.join(d, "meta.json")
    m = json.load(open(mp))
    prop = m["property"]
    if os.environ.get("REFRESH_FAST"):
        # the property's own check plus the checks that reported the change last time
        ids = [prop] + [c for c in (m.get("detected_by") or []) if c != prop]
        if any(t in name for t in os.environ.get("REFRESH_SKIP", "").split(",") if t):
            continue
    else:
        ids = [prop] + [c for c in RELATED.get(prop, [])]
        for c in (m.get("checks") or {}):
            if c not in ids:
                ids.append(c)
    D = tempfile.mkdtemp(prefix="seedref.", dir="/tmp")
    try:
        subprocess.check_call(["rsync", "-a", "--exclude", ".git", "--exclude", "__pycache__", "/repo/", D + "/"])
        if subprocess.run(["patch", "-p1", "-s", "-i", os.path.join(d, "patch.diff")], cwd=D).returncode != 0:
            print(name, "PATCH-FAILED"); continue
        det = {}
        for c in ids:
            p = subprocess.run(["/verif/check", c], env=dict(os.environ, VERIF_REPO=D), capture_output=True, text=True)
            det[c] = dict(rc=p.returncode, violation_lines=sum(1 for l in p.stdout.splitlines() if l.startswith("VIOLATION")), harness_error="HARNESS-ERROR" in p.stdout)
        m["checks"] = det
        m["detected_by"] = [c for c, v in det.items() if v["rc"] == 1]
        json.dump(m, open(mp, "w"), indent=1)
        print(name, prop, "->", m["detected_by"] or "MISSED", [c for c, v in det.items() if v["harness_error"]] or "")
    finally:
        shutil.rmtree(D, ignore_errors=True)
