#!/venv/bin/python
"""Lists known: entries that matched nothing in BOTH tiers' latest runs (replays/_stale/<ID>.<tier>.txt newer than the entry file is
not checked - run the checks first).  With --apply prints nothing but the list; entries live in tools/gen_known.py / known_extra.py and are
removed there by hand (root causes are shared between properties)."""
import glob, os, sys
sd = "/verif/replays/_stale"
out = []
for q in sorted(glob.glob(sd + "/*.quick.txt")):
    pid = os.path.basename(q).split(".")[0]
    t = q.replace(".quick.", ".thorough.")
    if not os.path.exists(t):
        print("# %s: no thorough record" % pid)
        continue
    a = set(l.strip() for l in open(q) if l.strip())
    b = set(l.strip() for l in open(t) if l.strip())
    for l in sorted(a & b):
        out.append(l)
print("\n".join(out))
print("# %d entries stale in both tiers" % len(out))
