#!/venv/bin/python
"""mkmut.py <out.diff> <file-relative-to-repo> <old> <new> [<file> <old> <new> ...]  -> unified diff against /repo"""
import difflib, sys
out = sys.argv[1]; args = sys.argv[2:]; res = []
for i in range(0, len(args), 3):
    f, old, new = args[i:i+3]
    src = open("/repo/" + f).read()
    assert src.count(old) == 1, (f, old, src.count(old))
    dst = src.replace(old, new)
    res += list(difflib.unified_diff(src.splitlines(True), dst.splitlines(True), "a/" + f, "b/" + f))
open(out, "w").write("".join(res))
print("wrote", out)
