#!/bin/bash
# usage: mutant.sh [-T] <patch.diff> <ID>...   apply a patch to a scratch copy of /repo, run (optionally) the repo's
# test-suite and the given checks against the copy (VERIF_REPO), then delete the copy.  Never touches /repo.
set -u
TESTS=0; if [ "$1" = "-T" ]; then TESTS=1; shift; fi
PATCH="$(realpath "$1")"; shift
D="$(mktemp -d /tmp/mut.XXXXXX)"
trap 'rm -rf "$D"' EXIT
rsync -a --exclude .git --exclude __pycache__ /repo/ "$D/"
( cd "$D" && patch -p1 -s < "$PATCH" ) || { echo "PATCH-FAILED"; exit 3; }
if [ $TESTS = 1 ]; then
  ( cd "$D" && PYTHONPATH="$D" /venv/bin/python -m pytest -q -x -p no:cacheprovider -n 16 tests 2>&1 | tail -3 )
fi
for id in "$@"; do
  VERIF_REPO="$D" /verif/check "$id" ${VERIF_TIER:+--tier $VERIF_TIER} 2>&1 | grep -E "^(VIOLATION|KNOWN-FINDING|HARNESS-ERROR|C[0-9][0-9] )" | cut -c1-220 | head -${MUT_LINES:-8}
  echo "rc[$id]=${PIPESTATUS[0]}"
done
