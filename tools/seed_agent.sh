#!/bin/bash
# seed_agent.sh <PROP> <checks...> : validate both candidate changes delivered by the sub-agent for <PROP>
P=$1; shift; WT=${WT:-$P}
for i in 1 2; do
  [ -f /tmp/wt_$WT/_seed/patch$i.diff ] || continue
  echo "=== ${WT}-${SEED_TAG:-agent}-$i"
  /verif/tools/seed.py ${WT}-${SEED_TAG:-agent}-$i $P /tmp/wt_$WT/_seed/patch$i.diff /tmp/wt_$WT/_seed/demo$i.py "$(head -c 400 /tmp/wt_$WT/_seed/notes$i.md | tr '\n' ' ')" "$@" 2>&1 | grep -E "KEPT|tests_pass|demo_rc|PATCH|\"rc\"|\"C[0-9]+\": \{|detected_by" | tr -d '\n' | sed 's/  */ /g'; echo
done
