#!/bin/bash
# re-run, for every seeded change, the checks recorded as detecting it (or its property's check) against a scratch copy; print MISSED ones
for d in /verif/seeded/*/; do
  n=$(basename $d)
  ids=$(/venv/bin/python -c "
import json; m=json.load(open('$d/meta.json')); det=[x.split(' ')[0] for x in (m.get('detected_by') or [])]; print(' '.join(det[:2] or [m['property']]))")
  D=$(mktemp -d /tmp/seedchk.XXXXXX); rsync -a --exclude .git --exclude __pycache__ /repo/ $D/; (cd $D && patch -p1 -s < $d/patch.diff) || { echo "$n PATCH-FAILED"; rm -rf $D; continue; }
  hit=""
  for id in $ids; do VERIF_REPO=$D /verif/check $id >/dev/null 2>&1; rc=$?; [ $rc = 1 ] && hit="$hit $id"; [ $rc = 2 ] && hit="$hit $id:HARNESS-ERROR"; done
  rm -rf $D
  if [ -z "$hit" ]; then echo "MISSED $n (tried: $ids)"; else echo "ok $n:$hit"; fi
done
