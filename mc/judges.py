"""Per-property verdicts on one leaf of the catalogue walk, and the driver that walks the catalogue."""
import collections
import importlib

import numpy as onp

from . import oracles as O
from . import walk as W
from .catalog.base import SPECS, Tier
from .runner import Report

CATALOG_MODULES = ["mc.catalog.elementwise", "mc.catalog.shapeops", "mc.catalog.contractions", "mc.catalog.wrappers",
                   "mc.catalog.linalg", "mc.catalog.fft"]


def load_catalog():
    for m in CATALOG_MODULES:
        try:
            importlib.import_module(m)
        except ModuleNotFoundError as e:
            if e.name != m:
                raise
    return SPECS


def _finite(v):
    try:
        return bool(onp.all(onp.isfinite(O.realify(v))))
    except Exception:
        return True


# ----------------------------------------------------------------- C01 / C02

def _jac_verdict(prop, spec_name, ch, case, which, res, mode):
    key = "rev" if mode == "rev" else "fwd"
    r = res.get(key)
    counts = collections.Counter()
    out = dict(v=None, nontrivial=False, outcome=None, counts=counts, sample=None)
    if mode not in case.modes or r is None:
        counts["mode-not-applicable"] += 1
        return out
    num = res.get("num")
    out["sample"] = dict(choices=list(ch.choices), prim=case.name, expr=case.expr,
                         operands={n: [W.kind_of(v), list(onp.shape(v))] for n, v in case.ops.items()},
                         argnum=W.base_features(case, which)["argnum"], mode=mode)
    if "exc" in r:
        counts["raised"] += 1
        out["outcome"] = "raised"
        out["sample"]["outcome"] = "raised: " + r["exc"][:80]
        return out
    if not _finite(res["np_val"]):
        counts["undecided"] += 1        # NumPy's own value is nan/inf here: not a regular point of the function
        out["outcome"] = "undecided"
        return out
    m, n = r["m"], r["n"]
    M, prob = W.matrix_from(r["rows"] if mode == "rev" else r["cols"], m, n, by_rows=(mode == "rev"))
    if M is not None and mode == "rev" and r.get("zero_cotangent_size", n) != n:
        M, prob = None, "VJP of the zero cotangent has %d real coordinates, expected %d" % (r["zero_cotangent_size"], n)
    if M is None:
        counts["wrong-shape"] += 1
        out["v"] = W.mk_violation(prop, spec_name, ch, case, which, mode, "wrong-shape", prob, "%d x %d real Jacobian" % (m, n))
        return out
    if isinstance(num, tuple) or not getattr(case, "value_oracle", True):
        counts["undecided"] += 1
        out["outcome"] = "undecided"
        return out
    J = num
    if J.shape != (m, n):
        counts["wrong-shape"] += 1
        out["v"] = W.mk_violation(prop, spec_name, ch, case, which, mode, "wrong-shape",
                                  "autograd primal has %d real coordinates, NumPy's %d" % (m, J.shape[0]), None)
        return out
    want = W.expected_rev(J, res["x"], res["np_val"]) if mode == "rev" else J
    err = O.maxrel(M, want)
    out["nontrivial"] = bool(m * n > 1 and onp.any(want != 0))
    out["outcome"] = "match"
    if not err <= W.TOL:
        counts["wrong-value"] += 1
        out["outcome"] = "wrong"
        out["v"] = W.mk_violation(prop, spec_name, ch, case, which, mode, "wrong-value",
                                  dict(max_rel_err=err, got=W.summarize(M)), W.summarize(want))
    else:
        counts["match"] += 1
    out["sample"]["outcome"] = out["outcome"]
    return out


def judge_c01(prop, spec_name, ch, case, which, res):
    return _jac_verdict(prop, spec_name, ch, case, which, res, "rev")


def judge_c02(prop, spec_name, ch, case, which, res):
    return _jac_verdict(prop, spec_name, ch, case, which, res, "fwd")


# ----------------------------------------------------------------- C04

def judge_c04(prop, spec_name, ch, case, which, res):
    counts = collections.Counter()
    out = dict(v=None, nontrivial=False, outcome=None, counts=counts, sample=None)
    r, f = res.get("rev"), res.get("fwd")
    if r is None or f is None or "exc" in r or "exc" in f:
        counts["not-both-modes"] += 1
        return out
    if not _finite(res["np_val"]):
        counts["non-regular-point"] += 1
        return out
    if not getattr(case, "value_oracle", True):
        counts["reduced-precision-operands"] += 1      # float32: identities only hold to eps32
        return out
    m, n = r["m"], r["n"]
    R, p1 = W.matrix_from(r["rows"], m, n, True)
    F, p2 = W.matrix_from(f["cols"], f["m"], f["n"], False)
    if R is None or F is None or F.shape != R.shape:
        counts["shape-problem(C01/C02/C05)"] += 1
        return out
    want = (O.signs(res["np_val"])[:, None] * F) * O.signs(res["x"])[None, :]
    fin = want[onp.isfinite(want)]
    scale = max(1.0, float(onp.max(onp.abs(fin))) if fin.size else 1.0)
    with onp.errstate(all="ignore"):
        bad_nan = bool(onp.any(onp.isnan(R) != onp.isnan(want)))
        d = onp.abs(R - want)
        d[onp.isnan(R) & onp.isnan(want)] = 0.0       # NaN in both modes alike: C01/C02 judge the NaN itself
        err = float(onp.max(d)) / scale if want.size else 0.0
    out["nontrivial"] = bool(want.size > 1 and onp.any(want != 0))
    out["outcome"] = "adjoint"
    out["sample"] = dict(choices=list(ch.choices), prim=case.name, expr=case.expr, argnum=W.base_features(case, which)["argnum"],
                         max_abs_diff_fwd_vs_rev=err)
    if bad_nan or not err <= 1e-10:
        counts["not-adjoint"] += 1
        out["outcome"] = "not-adjoint"
        out["v"] = W.mk_violation(prop, spec_name, ch, case, which, "fwd-vs-rev", "not-adjoint",
                                  dict(max_diff=err, rev=W.summarize(R)), W.summarize(want))
    else:
        counts["adjoint"] += 1
    return out


# ----------------------------------------------------------------- C05

def _dtype_ok(g, x):
    """For default-precision arguments (float64/complex128 arrays, Python scalars) the gradient dtype must match."""
    if isinstance(x, (tuple, list)):
        return isinstance(g, (tuple, list)) and len(g) == len(x) and all(_dtype_ok(a, b) for a, b in zip(g, x))
    xd = onp.asarray(x).dtype
    if xd in (onp.float64, onp.complex128):
        return onp.asarray(g).dtype == xd
    return True


def judge_c05(prop, spec_name, ch, case, which, res):
    counts = collections.Counter()
    out = dict(v=[], nontrivial=False, outcome=None, counts=counts, sample=None)
    feats_kind = "+".join(W.kind_of(v) for v in case.ops.values())
    for mode in ("rev", "fwd"):
        r = res.get(mode)
        if r is None or mode not in case.modes:
            continue
        if "exc" in r:
            counts["raised-" + mode] += 1
            continue
        if r["struct_bad"]:
            counts["wrong-structure-" + mode] += 1
            out["v"].append(W.mk_violation(prop, spec_name, ch, case, which, mode, "wrong-structure", r["struct_bad"][0],
                                           r["struct_bad"][1], dict(operand_kinds=feats_kind)))
        else:
            counts["ok-" + mode] += 1
    x = res["x"]
    out["nontrivial"] = bool(len(case.ops) > 1 or onp.ndim(x) == 0 or (hasattr(x, "shape") and 1 in getattr(x, "shape", ())))
    out["outcome"] = (feats_kind, tuple(sorted(counts)))
    out["sample"] = dict(choices=list(ch.choices), prim=case.name, expr=case.expr, operand_kinds=feats_kind,
                         argnum=W.base_features(case, which)["argnum"], verdict=dict(counts))
    return out


# ----------------------------------------------------------------- C06

def same_value(a, b):
    """Bit-for-bit equality of results incl. structure, shape, dtype (NaNs equal)."""
    if isinstance(b, (tuple, list)):
        return type(a) == type(b) and len(a) == len(b) and all(same_value(x, y) for x, y in zip(a, b))
    if isinstance(b, dict):
        return isinstance(a, dict) and list(a) == list(b) and all(same_value(a[k], b[k]) for k in b)
    if isinstance(b, onp.ndarray) or isinstance(a, onp.ndarray):
        if not (isinstance(a, onp.ndarray) and isinstance(b, onp.ndarray)):
            # 0-d array vs numpy scalar: autograd documents arrays in / arrays out; treat scalar-vs-0d as equal value check
            if onp.shape(a) != onp.shape(b):
                return False
            a, b = onp.asarray(a), onp.asarray(b)
        if a.dtype == object or not (a.shape == b.shape and a.dtype == b.dtype):
            return False
        if a.dtype in (onp.dtype("longdouble"), onp.dtype("clongdouble")):
            # x87 extended precision: each element carries uninitialised padding bytes, so the raw bytes are not comparable
            return bool(onp.array_equal(a, b, equal_nan=True)) and bool(onp.array_equal(onp.signbit(a.real), onp.signbit(b.real)))
        return a.tobytes() == b.tobytes()
    if isinstance(b, (float, complex, int, onp.generic)):
        try:
            # a Python float and numpy.float64 (a float subclass) are the same scalar kind (operators on Python floats
            # are routed through autograd.numpy and come back as float64); likewise complex / complex128
            ta, tb = _skind(a), _skind(b)
            if ta == tb == "float64":
                # scalar (not array) results: the plain value comes from CPython's / NumPy's *scalar* arithmetic (e.g. x ** y on
                # floats or np.float64), under differentiation the same operator is routed through the ufunc loop; the two
                # code paths of NumPy may differ in the last bit (observed for pow).  Arrays are compared bit-for-bit.
                return a == b or (a != a and b != b) or abs(a - b) <= 4e-16 * abs(b)
            return ta == tb and (a == b or (a != a and b != b))
        except Exception:
            return False
    try:
        return bool(a == b)
    except Exception:
        return False


def _skind(v):
    if isinstance(v, bool) or isinstance(v, onp.bool_):
        return "bool"
    if isinstance(v, float):
        return "float64"
    if isinstance(v, complex):
        return "complex128"
    if isinstance(v, int):
        return "int"
    return type(v).__name__


def describe(v):
    if isinstance(v, (tuple, list)):
        return [type(v).__name__] + [describe(x) for x in v]
    if isinstance(v, onp.ndarray):
        return "ndarray%s:%s" % (v.shape, v.dtype)
    return type(v).__name__


def judge_c06(prop, spec_name, ch, case, which, res):
    counts = collections.Counter()
    out = dict(v=[], nontrivial=True, outcome=None, counts=counts, sample=None)
    A = W.ag()
    ref = res["np_val"]
    obs = {}
    if "ag_plain" in res:
        obs["plain"] = res["ag_plain"]
    for mode in ("rev", "fwd"):
        r = res.get(mode)
        if r is not None and ("exc" not in r or "val" in r):
            obs[mode] = r["val"]
            if r.get("box_in_result"):
                out["v"].append(W.mk_violation(prop, spec_name, ch, case, which, mode, "box-in-derivative", "tracer object in result", None))
        elif r is not None:
            counts["raised-" + mode] += 1
    nest = res.get("nest") or {}
    for key, val in nest.items():
        if isinstance(val, tuple) and len(val) == 3 and isinstance(val[0], str) and val[0] == "EXC":
            counts["raised-" + key] += 1          # unsupported under (nested) differentiation: loud, not C06's subject
            continue
        if key == "value_and_grad":
            try:
                want = float(onp.sum(onp.real(onp.asarray(ref) * 1.0)))
            except Exception:
                continue
            if W._has_box(val, A) or not (onp.ndim(val) == 0 and (abs(float(val) - want) <= 1e-12 * (1 + abs(want)) or (want != want and float(val) != float(val)))):
                out["v"].append(W.mk_violation(prop, spec_name, ch, case, which, key, "primal-differs", repr(val)[:200], want))
            else:
                counts["same-" + key] += 1
            continue
        obs[key] = val
    for where, val in obs.items():
        if isinstance(val, tuple) and len(val) == 3 and isinstance(val[0], str) and val[0] == "EXC":
            counts["plain-call-raises"] += 1
            out["v"].append(W.mk_violation(prop, spec_name, ch, case, which, where, "plain-call-raises", val, describe(ref)))
            continue
        if W._has_box(val, A):
            counts["box-in-primal"] += 1
            out["v"].append(W.mk_violation(prop, spec_name, ch, case, which, where, "box-in-primal", describe(val), describe(ref)))
        elif not same_value(val, ref):
            counts["primal-differs"] += 1
            out["v"].append(W.mk_violation(prop, spec_name, ch, case, which, where, "primal-differs",
                                           dict(structure=describe(val), value=repr(val)[:300]), dict(structure=describe(ref), value=repr(ref)[:300])))
        else:
            counts["same-" + where] += 1
    # aliasing: where NumPy hands back fresh memory (e.g. np.array(a) copies), the result under autograd must not alias an input either -
    # otherwise a later in-place update of the result modifies the caller's input
    inputs = [v for v in case.ops.values() if isinstance(v, onp.ndarray) and v.size]
    if isinstance(ref, onp.ndarray) and ref.size and inputs and not any(onp.shares_memory(ref, v) for v in inputs):
        for where, val in list(obs.items()):
            if isinstance(val, onp.ndarray) and any(onp.shares_memory(val, v) for v in inputs):
                counts["aliases-input"] += 1
                out["v"].append(W.mk_violation(prop, spec_name, ch, case, which, where, "result-aliases-input", "shares memory with an input", "fresh memory (as NumPy)"))
    if not res["inputs_unchanged"]:
        counts["input-modified"] += 1
        out["v"].append(W.mk_violation(prop, spec_name, ch, case, which, "any", "input-modified", None, None))
    out["outcome"] = (describe(ref).__repr__()[:60],)
    out["sample"] = dict(choices=list(ch.choices), prim=case.name, expr=case.expr, numpy_result=describe(ref), verdict=dict(counts))
    return out


# ----------------------------------------------------------------- driver

JUDGES = dict(C01=(("num", "rev"), judge_c01), C02=(("num", "fwd"), judge_c02), C04=(("rev", "fwd"), judge_c04),
              C05=(("rev", "fwd"), judge_c05), C06=(("plain", "rev", "fwd", "nest"), judge_c06))


def harness_table(prop, cplx=False, families=None, reduced=False):
    """HARNESSES dict for a property module: one harness per catalogue spec."""
    specs = load_catalog()
    need, jf = JUDGES[prop]
    table = {}
    for name, (fn, fam) in specs.items():
        if families and fam not in families:
            continue

        def factory(quick, seed, name=name, fn=fn):
            return W.make_harness(name, fn, Tier(quick, seed, cplx=cplx, reduced=reduced), need, jf, prop)

        table["cat:" + name] = factory
    return table


def run_catalog(ctx, modname, table, rep=None, depth=2):
    from .par import run_harnesses
    rep = rep or Report("exploration")
    run_harnesses(ctx, rep, modname, list(table), depth=depth)
    per = rep.cov.get("per_harness", {})
    tot = collections.Counter()
    for d in per.values():
        tot.update(d["counts"])
    rep.cov["outcome_totals"] = dict(tot)
    rep.cov["specs"] = len(table)
    return rep
