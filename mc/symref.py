"""Boring symbolic reference differentiator (DESIGN 2.3 item 3).

Expressions over *named* variables with textbook rules; nested derivatives are taken symbolically
and evaluated in float64.  Because variables are named, perturbation confusion is impossible by
construction.  Deliberately independent of autograd (imports only math).
"""
import math


class E:
    def __add__(s, o):
        return add(s, lift(o))

    def __radd__(s, o):
        return add(lift(o), s)

    def __mul__(s, o):
        return mul(s, lift(o))

    def __rmul__(s, o):
        return mul(lift(o), s)

    def __sub__(s, o):
        return add(s, mul(Const(-1.0), lift(o)))

    def __rsub__(s, o):
        return add(lift(o), mul(Const(-1.0), s))

    def __neg__(s):
        return mul(Const(-1.0), s)

    def __pow__(s, k):
        return powc(s, float(k))


def lift(x):
    return x if isinstance(x, E) else Const(float(x))


class Const(E):
    __slots__ = ("c",)

    def __init__(s, c):
        s.c = float(c)

    def ev(s, env):
        return s.c

    def d(s, v):
        return ZERO

    def sub(s, v, e):
        return s

    def __repr__(s):
        return repr(s.c)


ZERO, ONE = Const(0.0), Const(1.0)


class Var(E):
    __slots__ = ("n",)

    def __init__(s, n):
        s.n = n

    def ev(s, env):
        return env[s.n]

    def d(s, v):
        return ONE if v == s.n else ZERO

    def sub(s, v, e):
        return e if v == s.n else s

    def __repr__(s):
        return s.n


class Add(E):
    __slots__ = ("a", "b")

    def __init__(s, a, b):
        s.a, s.b = a, b

    def ev(s, env):
        return s.a.ev(env) + s.b.ev(env)

    def d(s, v):
        return add(s.a.d(v), s.b.d(v))

    def sub(s, v, e):
        return add(s.a.sub(v, e), s.b.sub(v, e))

    def __repr__(s):
        return "(%r + %r)" % (s.a, s.b)


class Mul(E):
    __slots__ = ("a", "b")

    def __init__(s, a, b):
        s.a, s.b = a, b

    def ev(s, env):
        return s.a.ev(env) * s.b.ev(env)

    def d(s, v):
        return add(mul(s.a.d(v), s.b), mul(s.a, s.b.d(v)))

    def sub(s, v, e):
        return mul(s.a.sub(v, e), s.b.sub(v, e))

    def __repr__(s):
        return "(%r * %r)" % (s.a, s.b)


class Fn(E):
    """Unary elementary function by name."""
    __slots__ = ("f", "a")
    EV = dict(sin=math.sin, cos=math.cos, exp=math.exp, log=math.log, tanh=math.tanh)

    def __init__(s, f, a):
        s.f, s.a = f, a

    def ev(s, env):
        return Fn.EV[s.f](s.a.ev(env))

    def d(s, v):
        da = s.a.d(v)
        if da is ZERO:
            return ZERO
        if s.f == "sin":
            return mul(Fn("cos", s.a), da)
        if s.f == "cos":
            return mul(mul(Const(-1.0), Fn("sin", s.a)), da)
        if s.f == "exp":
            return mul(s, da)
        if s.f == "log":
            return mul(powc(s.a, -1.0), da)
        if s.f == "tanh":
            return mul(add(ONE, mul(Const(-1.0), mul(s, s))), da)
        raise KeyError(s.f)

    def sub(s, v, e):
        return Fn(s.f, s.a.sub(v, e))

    def __repr__(s):
        return "%s(%r)" % (s.f, s.a)


class PowC(E):
    __slots__ = ("a", "k")

    def __init__(s, a, k):
        s.a, s.k = a, k

    def ev(s, env):
        return s.a.ev(env) ** s.k

    def d(s, v):
        da = s.a.d(v)
        if da is ZERO:
            return ZERO
        return mul(mul(Const(s.k), powc(s.a, s.k - 1.0)), da)

    def sub(s, v, e):
        return powc(s.a.sub(v, e), s.k)

    def __repr__(s):
        return "(%r ** %r)" % (s.a, s.k)


def add(a, b):
    if isinstance(a, Const) and a.c == 0.0:
        return b
    if isinstance(b, Const) and b.c == 0.0:
        return a
    if isinstance(a, Const) and isinstance(b, Const):
        return Const(a.c + b.c)
    return Add(a, b)


def mul(a, b):
    if isinstance(a, Const):
        if a.c == 0.0:
            return ZERO
        if a.c == 1.0:
            return b
    if isinstance(b, Const):
        if b.c == 0.0:
            return ZERO
        if b.c == 1.0:
            return a
    if isinstance(a, Const) and isinstance(b, Const):
        return Const(a.c * b.c)
    return Mul(a, b)


def powc(a, k):
    if k == 0.0:
        return ONE
    if k == 1.0:
        return a
    if isinstance(a, Const):
        return Const(a.c ** k)
    return PowC(a, k)


def sin(a):
    return Fn("sin", lift(a))


def cos(a):
    return Fn("cos", lift(a))


def exp(a):
    return Fn("exp", lift(a))


def tanh(a):
    return Fn("tanh", lift(a))
