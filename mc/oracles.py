"""Reference oracles independent of autograd's rules (DESIGN 2.3).

Everything works in *real coordinates*: a differentiable value (array, scalar, complex, nested container) is
flattened to a real vector (complex entries contribute (re, im)); the real Jacobian J_R of the realification is
obtained from plain NumPy by 6th-order Richardson central differences with a trust test.
With C = diag(+1 for real coords, (+1,-1) per complex entry) the documented convention reads
    reverse:  rows  R[k,:] = realify(vjp(basis_k))  must equal  (C_out J_R C_in)[k,:]
    forward:  cols  F[:,j] = realify(jvp(basis_j))  must equal   J_R[:,j]
"""
import numpy as onp

GOLD = 0.6180339887498949


def fill(shape, k=0, lo=0.3, hi=1.7, seed=0, cplx=False):
    """Deterministic quasi-random generic values in (lo,hi): the *point alphabet* (finite, enumerated)."""
    n = int(onp.prod(shape)) if shape else 1
    t = (onp.arange(n) + 1 + 7 * k + 3 * seed) * GOLD + 0.137 * k + 0.0713 * seed
    vals = lo + (hi - lo) * onp.modf(t)[0]
    out = vals.reshape(shape)
    if cplx:
        t2 = (onp.arange(n) + 5 + 11 * k + 3 * seed) * 0.7548776662466927 + 0.29 * k
        out = out + 1j * (lo + (hi - lo) * onp.modf(t2)[0]).reshape(shape)
    return out


# ----------------------------------------------------------------- realification

def is_leaf(v):
    return isinstance(v, (onp.ndarray, float, int, complex, onp.generic))


def realify(v):
    """Flatten a (nested container of) value(s) into one real float64 vector."""
    if isinstance(v, dict):
        parts = [realify(v[k]) for k in v]
    elif isinstance(v, (tuple, list)):
        parts = [realify(x) for x in v]
    else:
        a = onp.asarray(v)
        if a.dtype == object:
            raise TypeError("object array")
        if onp.iscomplexobj(a):
            a = onp.asarray(a, dtype=complex).ravel()
            return onp.stack([a.real, a.imag], axis=1).ravel()
        return onp.asarray(a, dtype=float).ravel()
    return onp.concatenate(parts) if parts else onp.zeros(0)


def signs(v):
    """Diagonal of C for the value's space."""
    if isinstance(v, dict):
        parts = [signs(v[k]) for k in v]
    elif isinstance(v, (tuple, list)):
        parts = [signs(x) for x in v]
    else:
        a = onp.asarray(v)
        if onp.iscomplexobj(a):
            return onp.tile([1.0, -1.0], a.size)
        return onp.ones(a.size)
    return onp.concatenate(parts) if parts else onp.zeros(0)


def unrealify(template, vec):
    """Inverse of realify for the structure of `template` (python scalars stay python scalars)."""
    pos = [0]

    def rec(t):
        if isinstance(t, dict):
            return {k: rec(t[k]) for k in t}
        if isinstance(t, (tuple, list)):
            out = [rec(x) for x in t]
            if isinstance(t, tuple) and hasattr(t, "_fields"):
                return type(t)(*out)
            return type(t)(out)
        a = onp.asarray(t)
        if onp.iscomplexobj(a):
            n = 2 * a.size
            z = vec[pos[0]:pos[0] + n].reshape(-1, 2)
            pos[0] += n
            r = (z[:, 0] + 1j * z[:, 1]).reshape(a.shape)
        else:
            n = a.size
            r = vec[pos[0]:pos[0] + n].reshape(a.shape)
            pos[0] += n
            if a.dtype.kind == "f" and a.dtype != onp.float64:
                r = r.astype(a.dtype)
        if isinstance(t, onp.ndarray):
            return r
        if isinstance(t, (float, int)) and not isinstance(t, bool):
            return float(r)
        if isinstance(t, complex):
            return complex(r)
        if isinstance(t, onp.generic):
            return type(t)(r)
        return r

    return rec(template)


def structure(v):
    """Comparable description of a value's vector-space structure (nesting, shapes, real/complex)."""
    if isinstance(v, dict):
        return ("dict", tuple((k, structure(x)) for k, x in v.items()))
    if isinstance(v, (tuple, list)):
        return (type(v).__name__, tuple(structure(x) for x in v))
    a = onp.asarray(v)
    return ("arr", a.shape, "c" if onp.iscomplexobj(a) else "r")


# ----------------------------------------------------------------- numerical Jacobian

class Untrusted(Exception):
    pass


def numjac(f, x, h0=1e-3, tol=2e-8):
    """Real Jacobian of the realification of f at x (x: any differentiable value). Returns (J, y0).

    Central differences at h, 2h, 4h combined by two Richardson levels; trusted only if the 4th- and 6th-order
    estimates agree and everything is finite - otherwise raises Untrusted (point not regular enough)."""
    x0 = realify(x)
    y0v = f(x)
    y0 = realify(y0v)
    n, m = x0.size, y0.size
    J = onp.zeros((m, n))
    scale = 1.0
    with onp.errstate(all="ignore"):
        for j in range(n):
            h = h0 * max(1.0, abs(x0[j])) * scale

            def at(t):
                xx = x0.copy()
                xx[j] += t
                r = realify(f(unrealify(x, xx)))
                if r.shape != y0.shape:
                    raise Untrusted("output structure changes with the input")
                return r

            d1 = (at(h) - at(-h)) / (2 * h)
            d2 = (at(2 * h) - at(-2 * h)) / (4 * h)
            d3 = (at(4 * h) - at(-4 * h)) / (8 * h)
            r1 = (4 * d1 - d2) / 3
            r2 = (4 * d2 - d3) / 3
            r6 = (16 * r1 - r2) / 15
            if not (onp.all(onp.isfinite(r6)) and onp.all(onp.isfinite(d3))):
                raise Untrusted("non-finite stencil")
            if m and onp.max(onp.abs(r6 - r1) / (1 + onp.abs(r6))) > tol:
                raise Untrusted("Richardson levels disagree (stencil straddles a kink/jump or ill-conditioned)")
            J[:, j] = r6
    return J, y0v


def one_sided(f, x, d, h0=1e-4):
    """One-sided directional derivative of f at x along d (real coords), 3-point Richardson; returns vector."""
    x0 = realify(x)
    y0 = realify(f(x))

    def at(t):
        return realify(f(unrealify(x, x0 + t * d)))

    h = h0
    a1 = (at(h) - y0) / h
    a2 = (at(2 * h) - y0) / (2 * h)
    a4 = (at(4 * h) - y0) / (4 * h)
    r1 = 2 * a1 - a2
    r2 = 2 * a2 - a4
    return (4 * r1 - r2) / 3


def maxrel(A, B):
    if A.size == 0:
        return 0.0
    with onp.errstate(all="ignore"):
        e = onp.abs(A - B) / (1 + onp.abs(B))
    if not onp.all(onp.isfinite(A)):
        return float("inf")
    return float(onp.max(e))
