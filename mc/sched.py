"""Controlled thread scheduler over the real autograd code (DESIGN 2.5).

Real threading.Threads serialised by a per-thread semaphore baton: exactly one runs.  Scheduling points come from
sys.monitoring (PEP 669) *local* events on autograd's own code objects:
  G0  INSTRUCTION events filtered to LOAD_ATTR/STORE_ATTR of *mutable attribute names* (names that some autograd code
      stores outside an __init__, e.g. TraceStack.top) and to global stores / subscript stores in the tracing core
      - the accesses to shared mutable state.  Explored as explicit-state search with unbounded preemptions.
  G1  PY_START/PY_RESUME of every function defined in the tracing core modules.  Explored statelessly with iterative
      preemption bounding.
A choice at a point = which enabled thread runs next (option 0 = keep running the current thread; any other option is
a preemption).  Thread start and thread end are non-preemptive choices among the runnable threads.
"""
import dis
import sys
import threading
import time
import types

from .explore import HarnessError

mon = sys.monitoring
TOOL = mon.PROFILER_ID
_CUR = threading.local()
_INSTALLED = {"mode": None, "codes": []}
HOT = {}          # code -> set of offsets (G0)
CORE_MODULES = ["autograd.core", "autograd.tracer", "autograd.util", "autograd.wrap_util",
                "autograd.differential_operators", "autograd.builtins"]


def _code_objects(mod):
    seen = set()
    out = []

    def walk(co):
        if co in seen:
            return
        seen.add(co)
        out.append(co)
        for c in co.co_consts:
            if isinstance(c, types.CodeType):
                walk(c)

    for v in list(vars(mod).values()):
        fs = []
        if isinstance(v, types.FunctionType):
            fs.append(v)
        elif isinstance(v, type) and getattr(v, "__module__", None) == mod.__name__:
            for a in vars(v).values():
                a = getattr(a, "__func__", a)
                a = getattr(a, "fget", a) if isinstance(a, property) else a
                if isinstance(a, types.FunctionType):
                    fs.append(a)
        for f in fs:
            w = f
            while w is not None:
                if getattr(w, "__module__", None) == mod.__name__ and isinstance(w, types.FunctionType):
                    walk(w.__code__)
                w = getattr(w, "__wrapped__", None)
    return out


def core_codes():
    import importlib
    codes = []
    for m in CORE_MODULES:
        try:
            codes += _code_objects(importlib.import_module(m))
        except ImportError:
            pass
    # code objects appearing in several modules (re-exports) only once
    uniq = []
    seen = set()
    for c in codes:
        if c not in seen:
            seen.add(c)
            uniq.append(c)
    return uniq


def mutable_attr_names(codes):
    """Attribute names stored by autograd code outside __init__/initialize_root: candidates for shared mutable state."""
    names = set()
    for co in codes:
        if co.co_name in ("__init__", "initialize_root", "__new__"):
            continue
        for ins in dis.get_instructions(co):
            if ins.opname == "STORE_ATTR":
                names.add(ins.argval)
    # dunder metadata written by decorators at import time is not runtime state
    return {n for n in names if not (n.startswith("__") and n.endswith("__"))}


def compute_hot(codes):
    names = mutable_attr_names(codes)
    hot = {}
    for co in codes:
        offs = set()
        for ins in dis.get_instructions(co):
            if ins.opname in ("LOAD_ATTR", "STORE_ATTR") and ins.argval in names:
                offs.add(ins.offset)
            elif ins.opname in ("STORE_GLOBAL", "DELETE_GLOBAL"):
                offs.add(ins.offset)
        if offs:
            hot[co] = offs
    return hot, names


def _on_instr(code, off):
    s = getattr(_CUR, "sched", None)
    if s is not None:
        h = HOT.get(code)
        if h is not None and off in h:
            s.point(_CUR.tid, ("i", code.co_name, off))


def _on_start(code, off):
    s = getattr(_CUR, "sched", None)
    if s is not None:
        s.point(_CUR.tid, ("f", code.co_qualname))


def install(mode):
    """Enable scheduling points of the given granularity ('G0' or 'G1'); idempotent."""
    if _INSTALLED["mode"] == mode:
        return
    if _INSTALLED["mode"] is None:
        if mon.get_tool(TOOL) is None:
            mon.use_tool_id(TOOL, "verif-sched")
        mon.register_callback(TOOL, mon.events.INSTRUCTION, _on_instr)
        mon.register_callback(TOOL, mon.events.PY_START, _on_start)
        mon.register_callback(TOOL, mon.events.PY_RESUME, _on_start)
    for co in _INSTALLED["codes"]:
        mon.set_local_events(TOOL, co, 0)
    codes = core_codes()
    if mode == "G0":
        hot, names = compute_hot(codes)
        HOT.clear()
        HOT.update(hot)
        for co in hot:
            mon.set_local_events(TOOL, co, mon.events.INSTRUCTION)
        _INSTALLED["codes"] = list(hot)
        _INSTALLED["names"] = sorted(names)
    else:
        for co in codes:
            mon.set_local_events(TOOL, co, mon.events.PY_START | mon.events.PY_RESUME)
        _INSTALLED["codes"] = codes
    _INSTALLED["mode"] = mode


def info():
    return dict(mode=_INSTALLED["mode"], instrumented_code_objects=len(_INSTALLED["codes"]),
                hot_attribute_names=_INSTALLED.get("names"),
                hot_points={c.co_qualname: sorted(o) for c, o in HOT.items()} if _INSTALLED["mode"] == "G0" else None)


# ----------------------------------------------------------------- shared-state view / reset

def tracked_objects():
    """Module-level instances of autograd classes in the tracing core (e.g. tracer.trace_stack)."""
    import importlib
    out = []
    for m in CORE_MODULES:
        mod = importlib.import_module(m)
        for k, v in vars(mod).items():
            tm = getattr(type(v), "__module__", "") or ""
            if tm.startswith("autograd") and not isinstance(v, (type, types.FunctionType, types.ModuleType)) and hasattr(v, "__dict__"):
                if all(v is not o for _, o in out):
                    out.append(("%s.%s" % (m, k), v))
    return out


def tracked_containers():
    import importlib
    out = []
    for m in CORE_MODULES[:3]:
        mod = importlib.import_module(m)
        for k, v in vars(mod).items():
            if isinstance(v, (dict, list, set)) and not k.startswith("__"):
                out.append(v)
    return out


import copy as _copy


def all_module_containers():
    """Every module-level (and class-level) dict / list / set of every autograd module: caches live here."""
    out = []
    seen = set()
    for mname, mod in list(sys.modules.items()):
        if not (mname == "autograd" or mname.startswith("autograd.")) or mod is None:
            continue
        for k, v in list(vars(mod).items()):
            if k.startswith("__"):
                continue
            cands = [v] if isinstance(v, (dict, list, set)) else []
            if isinstance(v, type) and (getattr(v, "__module__", "") or "").startswith("autograd"):
                cands += [cv for ck, cv in vars(v).items() if isinstance(cv, (dict, list, set)) and not ck.startswith("__")]
            for c in cands:
                if id(c) not in seen:
                    seen.add(id(c))
                    out.append(c)
    return out


def all_module_scalars():
    """(module, name) of every module-level int / float / bool / str / None global of the autograd modules (counters, flags)."""
    out = []
    for mname, mod in list(sys.modules.items()):
        if not (mname == "autograd" or mname.startswith("autograd.")) or mod is None:
            continue
        for k, v in list(vars(mod).items()):
            if not k.startswith("__") and (v is None or type(v) in (int, float, bool, str)):
                out.append((mod, k))
    return out


def _differs(cur, saved):
    """A module-level scalar global (None / int / float / bool / str at snapshot time) holds something else now - possibly an object of another
    type, e.g. an array parked in a global that started as None."""
    if cur is saved:
        return False
    if type(cur) is not type(saved):
        return True
    try:
        return bool(cur != saved)
    except Exception:
        return True


class View:
    def __init__(self):
        self.objs = tracked_objects()
        self.conts = tracked_containers()
        self.all_conts = all_module_containers()
        self.scalars = all_module_scalars()

    def now(self):
        return tuple(tuple(sorted((k, repr(v)) for k, v in vars(o).items())) for _, o in self.objs) + \
            tuple(len(c) for c in self.conts)

    def snapshot(self):
        # (a) attributes of module-level instances, (b) shallow contents of every module-level container: an execution must
        # start from the same library state, including caches that a previous schedule (or the solo reference run) filled
        return [dict(vars(o)) for _, o in self.objs], [_copy.copy(c) for c in self.all_conts], [getattr(m, k, None) for m, k in self.scalars]

    def touched(self, snap):
        """Number of module-level containers / scalars / tracked instances whose state differs from the snapshot: the code under test
        WRITES process-wide state while differentiating (on the unchanged tree this is only the thread-local trace stack)."""
        objs, conts, scal = snap
        n = 0
        for c, saved in zip(self.all_conts, conts):
            try:
                n += int(c != saved)
            except Exception:
                n += int(len(c) != len(saved))
        for (m, k), v in zip(self.scalars, scal):
            n += int(_differs(getattr(m, k, None), v))
        return n

    def restore(self, snap):
        objs, conts, scal = snap
        for (m, k), v in zip(self.scalars, scal):
            if _differs(getattr(m, k, None), v):
                setattr(m, k, v)
        for (_, o), d in zip(self.objs, objs):
            cur = vars(o)
            if cur != d:
                cur.clear()
                cur.update(d)
        for c, saved in zip(self.all_conts, conts):
            if len(c) != len(saved) or (isinstance(c, dict) and c.keys() != saved.keys()):
                if isinstance(c, list):
                    c[:] = saved
                else:
                    c.clear()
                    c.update(saved)


# ----------------------------------------------------------------- locks (none exist today; see DESIGN 2.5)

class SchedLock:
    """Scheduler-aware replacement for threading.Lock/RLock found in autograd globals."""

    def __init__(self, reentrant=False):
        self.owner, self.count, self.reentrant = None, 0, reentrant

    def acquire(self, blocking=True, timeout=-1):
        s = getattr(_CUR, "sched", None)
        tid = getattr(_CUR, "tid", None)
        if s is None:
            self.owner, self.count = "main", self.count + 1
            return True
        s.point(tid, ("lock",))
        while self.owner is not None and not (self.reentrant and self.owner == tid):
            if not blocking:
                return False
            s.block(tid, self)
        self.owner, self.count = tid, self.count + 1
        return True

    def release(self):
        self.count -= 1
        if self.count <= 0:
            self.owner, self.count = None, 0
            s = getattr(_CUR, "sched", None)
            if s is not None:
                s.unblock(self)

    __enter__ = acquire

    def __exit__(self, *a):
        self.release()

    def locked(self):
        return self.owner is not None


def replace_real_locks():
    import importlib
    n = 0
    lock_types = (type(threading.Lock()), type(threading.RLock()))
    for m in list(sys.modules):
        if not (m == "autograd" or m.startswith("autograd.")):
            continue
        mod = sys.modules[m]
        for k, v in list(vars(mod).items()):
            if isinstance(v, lock_types):
                setattr(mod, k, SchedLock(isinstance(v, lock_types[1])))
                n += 1
            elif (getattr(type(v), "__module__", "") or "").startswith("autograd") and hasattr(v, "__dict__") and not isinstance(v, type):
                for ak, av in list(vars(v).items()):
                    if isinstance(av, lock_types):
                        setattr(v, ak, SchedLock(isinstance(av, lock_types[1])))
                        n += 1
            elif isinstance(v, type) and (getattr(v, "__module__", "") or "").startswith("autograd"):
                for ak, av in list(vars(v).items()):
                    if isinstance(av, lock_types):
                        setattr(v, ak, SchedLock(isinstance(av, lock_types[1])))
                        n += 1
    return n


# ----------------------------------------------------------------- one execution

class Deadlock(Exception):
    pass


class Execution:
    def __init__(self, bodies, prefix, view=None, record_states=False, horizon=20000, bound=None):
        self.bodies = bodies
        self.prefix = list(prefix)
        self.choices, self.points, self.states = [], [], []
        self.sems, self.alive, self.blocked, self.results = {}, [], {}, {}
        self.pc = {}
        self.reads = {}
        self.view = view
        self.record_states = record_states
        self.horizon = horizon
        self.error = None
        self.overlap = False
        self.bound = bound          # preemption bound of the search that drives us (None = unbounded)
        self.npre = 0
        self.silent = False         # budget exhausted beyond the prefix: remaining points cannot spawn children
        self.started = set()

    def _choose(self, n, label, preemptive, tid):
        i = len(self.choices)
        c = self.prefix[i] if i < len(self.prefix) else 0
        if c >= n:
            self.error = "replay diverged at %d: choice %d of %d (%r)" % (i, c, n, label)
            c = 0
        if i >= self.horizon:
            self.error = "horizon of %d scheduling points exceeded" % self.horizon
        self.choices.append(c)
        self.points.append((tid, label, n, preemptive))
        return c

    def run(self):
        n = len(self.bodies)
        ths = []
        for tid in range(n):
            self.sems[tid] = threading.Semaphore(0)
            self.alive.append(tid)
            self.pc[tid] = 0
            self.reads[tid] = ()

        def mk(tid, body):
            def runner():
                self.sems[tid].acquire()
                _CUR.sched, _CUR.tid = self, tid
                self.started.add(tid)
                try:
                    self.results[tid] = body()
                except Deadlock:
                    self.results[tid] = ("DEADLOCK",)
                except BaseException as e:  # noqa
                    self.results[tid] = ("EXC", type(e).__name__, __import__("re").sub(r"0x[0-9a-fA-F]+", "0x..", str(e))[:80])
                finally:
                    _CUR.sched = None
                    self.alive.remove(tid)
                    self._handoff_after_exit()
            return threading.Thread(target=runner, daemon=True)

        for tid, body in enumerate(self.bodies):
            t = mk(tid, body)
            ths.append(t)
            t.start()
        first = self._choose(n, ("start",), False, -1) if n > 1 else 0
        self.sems[first].release()
        deadline = time.time() + 60
        for t in ths:
            t.join(max(0.1, deadline - time.time()))
            if t.is_alive():
                raise HarnessError("thread did not finish within 60 s (choices=%r)" % (self.choices[:50],))
        return self.results

    def _runnable(self, exclude=None):
        return [t for t in self.alive if t != exclude and t not in self.blocked]

    def _handoff_after_exit(self):
        r = self._runnable()
        if r:
            c = self._choose(len(r), ("exit",), False, -1) if len(r) > 1 else 0
            self.sems[r[c]].release()
        elif self.alive:   # everybody left is blocked: deadlock - wake them so they can fail
            for t in list(self.blocked):
                self.blocked.pop(t, None)
                self.results[t] = ("DEADLOCK",)
                self.sems[t].release()

    def point(self, tid, label):
        if self.silent:
            return
        others = self._runnable(exclude=tid)
        if not others:
            return
        if self.bound is not None and self.npre >= self.bound and len(self.choices) >= len(self.prefix):
            self.silent = True      # only default continuations remain; they are this very run
            return
        if self.record_states:
            st = (tid, label, self.view.now() if self.view else None,
                  tuple((t, self.pc[t], self.reads[t]) for t in sorted(self.pc)), tuple(self.alive))
            self.states.append(st)
        enabled = [tid] + others
        c = self._choose(len(enabled), label, True, tid)
        nxt = enabled[c]
        if nxt != tid:
            self.overlap = True
            self.npre += 1
            self.sems[nxt].release()
            self.sems[tid].acquire()
        self.pc[tid] += 1
        if self.record_states and self.view is not None:
            self.reads[tid] = self.reads[tid] + (self.view.now(),)

    def block(self, tid, lock):
        self.blocked[tid] = lock
        r = self._runnable()
        if not r:
            self.blocked.pop(tid, None)
            raise Deadlock()
        c = self._choose(len(r), ("blocked",), False, tid) if len(r) > 1 else 0
        self.sems[r[c]].release()
        self.sems[tid].acquire()

    def unblock(self, lock):
        for t, l in list(self.blocked.items()):
            if l is lock:
                self.blocked.pop(t)

    def preemptions(self, upto=None):
        k = 0
        for (c, p) in list(zip(self.choices, self.points))[:upto]:
            if p[3] and c != 0:
                k += 1
        return k


# ----------------------------------------------------------------- exploration drivers

def explore_bounded(bodies, check, bound, view, max_exec=None, stop_after=None, part=None):
    """Stateless DFS over schedules with at most `bound` preemptions (iterative context bounding).
    part=(k, P): only the subtrees whose FIRST deviation from the default schedule sits at a point index = k mod P (the union over
    k is the whole bounded space; the default schedule itself belongs to part 0)."""
    n = trans = 0
    bad = []
    outcomes = {}
    overlapped = 0
    stack = [[]]
    snap = view.snapshot()
    capped = False
    while stack:
        prefix = stack.pop()
        view.restore(snap)
        x = Execution(bodies, prefix, view, bound=bound)
        res = x.run()
        if x.error:
            raise HarnessError(x.error)
        n += 1
        overlapped += x.overlap
        key = repr(sorted(res.items()))
        outcomes[key] = outcomes.get(key, 0) + 1
        v = check(res)
        if v:
            bad.append((list(x.choices), dict(res), v, x.preemptions()))
            if stop_after and len(bad) >= stop_after:
                capped = True
                break
        base_cost = x.preemptions(len(prefix))
        for i in range(len(prefix), len(x.points)):
            tid, label, nen, pre = x.points[i]
            cost = base_cost + sum(1 for c, p in zip(x.choices[len(prefix):i], x.points[len(prefix):i]) if p[3] and c) + (1 if pre else 0)
            if cost > bound:
                continue
            if part is not None and not prefix and i % part[1] != part[0]:
                continue
            for alt in range(1, nen):
                stack.append(x.choices[:i] + [alt])
                trans += 1
        trans += len(x.points) - len(prefix)
        if max_exec and n >= max_exec:
            capped = bool(stack)
            break
    view.restore(snap)
    return dict(executions=n, transitions=trans, bad=bad, outcomes=outcomes, overlapped=overlapped, capped=capped)


def explore_states(bodies, check, view, max_exec=None, stop_after=None):
    """Explicit-state search with replay, unbounded preemptions: a run that reaches a visited state spawns no children."""
    visited = set()
    n = trans = 0
    bad = []
    outcomes = {}
    overlapped = 0
    stack = [[]]
    snap = view.snapshot()
    capped = False
    while stack:
        prefix = stack.pop()
        view.restore(snap)
        x = Execution(bodies, prefix, view, record_states=True)
        res = x.run()
        if x.error:
            raise HarnessError(x.error)
        n += 1
        overlapped += x.overlap
        key = repr(sorted(res.items()))
        outcomes[key] = outcomes.get(key, 0) + 1
        v = check(res)
        if v:
            bad.append((list(x.choices), dict(res), v, x.preemptions()))
            if stop_after and len(bad) >= stop_after:
                capped = True
                break
        # states are recorded only at preemptive points; map them onto choice indices
        si = 0
        idx_state = {}
        for i, p in enumerate(x.points):
            if p[3]:
                idx_state[i] = x.states[si]
                si += 1
        for i in range(len(prefix), len(x.points)):
            tid, label, nen, pre = x.points[i]
            if pre:
                st = idx_state[i]
                if st in visited:
                    break
                visited.add(st)
            for alt in range(1, nen):
                stack.append(x.choices[:i] + [alt])
                trans += 1
            trans += 1
        if max_exec and n >= max_exec:
            capped = bool(stack)
            break
    view.restore(snap)
    return dict(executions=n, transitions=trans, states=len(visited), bad=bad, outcomes=outcomes, overlapped=overlapped, capped=capped)
