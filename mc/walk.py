"""The shared configuration walk behind C01/C02/C04/C05/C06/C07/C09 (DESIGN 2.4, 3).

A *spec* (mc/catalog) makes every decision about one call through the chooser and returns a Case: an expression
string over operand names, evaluated literally (eval) once with np = numpy and once with np = autograd.numpy.
One leaf = (spec, point index, spec choices, differentiated argnum).  evaluate() runs the real code and the oracle;
the per-property judges turn the observations into verdicts.
"""
import warnings

import numpy as onp

from . import oracles as O
from .explore import Skip
from .findings import violation

_AG = {}


class _NumpyShim:
    """numpy, plus reference implementations of the few autograd-only exports (so the oracle has a plain function)."""
    linalg = onp.linalg
    fft = onp.fft

    def __getattr__(self, name):
        return getattr(onp, name)

    @staticmethod
    def make_diagonal(D, offset=0, axis1=0, axis2=1):
        if not (offset == 0 and axis1 == -1 and axis2 == -2):
            raise NotImplementedError
        return D[..., None] * onp.eye(D.shape[-1])


NPX = _NumpyShim()


def ag():
    if not _AG:
        import autograd
        import autograd.numpy as anp
        from autograd.core import vspace
        from autograd.tracer import isbox
        _AG.update(autograd=autograd, anp=anp, vspace=vspace, isbox=isbox)
    return _AG


class Case:
    def __init__(self, name, expr, ops, feat=None, modes=("rev", "fwd"), argnums=None, pre="", ns=None,
                 smooth=True, family=""):
        self.name, self.expr, self.ops = name, expr, dict(ops)
        self.feat = dict(feat or {})
        self.modes = modes
        self.argnums = argnums      # None = default alphabet
        self.pre = pre              # extra source lines for the repro
        self.ns = ns or {}          # extra names for eval (constants)
        self.smooth = smooth
        self.family = family
        self._f = None

    def fn(self):
        if self._f is None:
            names = list(self.ops)
            self._f = eval("lambda np, %s: %s" % (", ".join(names), self.expr), dict(self.ns))
        return self._f


def kind_of(v):
    if isinstance(v, onp.ndarray):
        return ("c" if onp.iscomplexobj(v) else "") + ("0d" if v.ndim == 0 else "arr") + ("" if v.dtype in (onp.float64, onp.complex128) else str(v.dtype))
    return type(v).__name__


def argnum_options(case):
    names = list(case.ops)
    diffable = [i for i, n in enumerate(names) if _is_diffable(case.ops[n])]
    if case.argnums is not None:
        return case.argnums
    opts = [(i,) for i in diffable]
    if len(diffable) >= 2:
        opts.append(tuple(diffable))
        a, b = case.ops[names[diffable[0]]], case.ops[names[diffable[1]]]
        if len(diffable) == 2 and isinstance(a, onp.ndarray) and isinstance(b, onp.ndarray) and a.shape == b.shape \
                and a.dtype == b.dtype and a.ndim > 0:
            opts.append("same")
    return opts


def _is_diffable(v):
    if isinstance(v, onp.ndarray):
        return v.dtype.kind in "fc"
    return isinstance(v, (float, complex, onp.floating, onp.complexfloating)) and not isinstance(v, bool)


def repro_src(case, which, mode):
    L = ["import warnings; warnings.simplefilter('ignore')", "import numpy as onp, autograd, autograd.numpy as np",
         "from numpy import array, float64, float32, complex128"]
    if case.pre:
        L.append(case.pre)
    for n, v in case.ops.items():
        L.append("%s = %s" % (n, _lit(v)))
    names = list(case.ops)
    if which == "same":
        a, b = names[0], names[1]
        L.append("f = lambda %s: %s" % (a, case.expr.replace(b, a) if False else "(lambda %s: %s)(%s)" % (", ".join(names), case.expr, ", ".join([a, a] + names[2:]))))
        L.append("args, argnum = (%s,), 0" % a)
    else:
        L.append("f = lambda %s: %s" % (", ".join(names), case.expr))
        L.append("args, argnum = (%s,), %r" % (", ".join(names), which[0] if len(which) == 1 else tuple(which)))
    if mode == "fwd":
        L.append("# forward mode: print(autograd.make_jvp(f, argnum)(*args)(<tangent>))")
    L.append("vjp, val = autograd.make_vjp(f, argnum)(*args); print(val); print(vjp(autograd.core.vspace(val).ones()))")
    return "\n".join(L)


def _lit(v):
    if isinstance(v, onp.ndarray):
        return "array(%s, dtype=%r)" % (repr(v.tolist()), str(v.dtype))
    if isinstance(v, onp.generic):
        return "%s(%r)" % (type(v).__name__, v.item())
    return repr(v)


def evaluate(case, which, need):
    """Run plain NumPy, the numerical oracle and autograd's reverse/forward mode for one leaf."""
    A = ag()
    f = case.fn()
    names = list(case.ops)
    vals = [case.ops[n] for n in names]
    out = {}

    def subst(xd):
        args = list(vals)
        if which == "same":
            args[0] = xd
            args[1] = xd
        elif len(which) == 1:
            args[which[0]] = xd
        else:
            for i, v in zip(which, xd):
                args[i] = v
        return args

    if which == "same":
        x = vals[0]
    elif len(which) == 1:
        x = vals[which[0]]
    else:
        x = tuple(vals[i] for i in which)
    out["x"] = x
    snapshot = [v.tobytes() if isinstance(v, onp.ndarray) else repr(v) for v in vals]
    with warnings.catch_warnings():
        warnings.simplefilter("ignore")
        with onp.errstate(all="ignore"):
            try:
                out["np_val"] = f(NPX, *subst(x))
            except Exception as e:
                raise Skip("NumPy rejects the call: %s" % type(e).__name__)
            if "num" in need:
                try:
                    J, _ = O.numjac(lambda xx: f(NPX, *subst(xx)), x)
                    out["num"] = J
                except O.Untrusted as e:
                    out["num"] = ("untrusted", str(e))
                except Exception as e:
                    out["num"] = ("untrusted", "numpy raised near the point: %s" % type(e).__name__)
            if "plain" in need:
                try:
                    out["ag_plain"] = f(A["anp"], *subst(x))
                except Exception as e:
                    out["ag_plain"] = ("EXC", type(e).__name__, str(e)[:100])

            def f_ag(*a):
                if which == "same":
                    return f(A["anp"], *subst(a[0]))
                args = list(vals)
                for i, v in zip(range(len(a)), a):
                    args[i] = v
                return f(A["anp"], *args)

            if which == "same":
                call_args, argnum = (vals[0],), 0
            else:
                call_args, argnum = tuple(vals), (which[0] if len(which) == 1 else tuple(which))
            if "nest" in need:
                out["nest"] = _nested_primals(A, f_ag, argnum, call_args, x)
            if "rev" in need:
                out["rev"] = _reverse(A, f_ag, argnum, call_args, x)
            if "fwd" in need:
                out["fwd"] = _forward(A, f_ag, argnum, call_args, x)
    out["inputs_unchanged"] = snapshot == [v.tobytes() if isinstance(v, onp.ndarray) else repr(v) for v in vals]
    return out


def _nested_primals(A, f_ag, argnum, call_args, x):
    """Primal values handed back at nesting depth 2 and by value_and_grad / grad_and_aux (C06)."""
    ag, anp, vspace = A["autograd"], A["anp"], A["vspace"]
    r = {}

    def attempt(key, thunk):
        try:
            r[key] = thunk()
        except Skip:
            raise
        except Exception as e:
            r[key] = ("EXC", type(e).__name__, str(e)[:100])

    attempt("depth2-rev-in-rev", lambda: ag.make_vjp(lambda *a: ag.make_vjp(f_ag, argnum)(*a)[1], argnum)(*call_args)[1])
    attempt("depth2-fwd-in-rev", lambda: ag.make_vjp(lambda *a: ag.make_jvp(f_ag, argnum)(*a)(vspace(x).zeros())[0], argnum)(*call_args)[1])
    attempt("depth2-rev-in-fwd", lambda: ag.make_jvp(lambda *a: ag.make_vjp(f_ag, argnum)(*a)[1], argnum)(*call_args)(vspace(x).zeros())[0])

    def scalarised(*a):
        o = f_ag(*a)
        return anp.sum(anp.real(o * 1.0)) if not isinstance(o, (tuple, list, dict)) and not _is_container_box(o) else None

    def vag():
        v = ag.value_and_grad(lambda *a: scalarised(*a), argnum)(*call_args)[0]
        return v

    def aux():
        return ag.grad_and_aux(lambda *a: (scalarised(*a), f_ag(*a)), argnum)(*call_args)[1]

    attempt("value_and_grad", vag)
    attempt("grad_and_aux", aux)
    return r


def _is_container_box(o):
    v = getattr(o, "_value", None)
    return isinstance(v, (tuple, list, dict))


def _default_precision(vs):
    """Every leaf space is float64 / complex128 (Python scalars included)."""
    sh = getattr(vs, "shape", None)
    if isinstance(sh, dict):
        return all(_default_precision(v) for v in sh.values())
    if isinstance(sh, (tuple, list)) and not all(isinstance(d, int) for d in sh):
        return all(_default_precision(v) for v in sh)
    return getattr(vs, "dtype", None) in (onp.dtype("float64"), onp.dtype("complex128"))


def _same_space(gvs, xs, strict_dtype=True):
    """vspace equality as C05 states it: same structure and shape, real for real / complex for complex, and the same dtype
    for default-precision arguments (float64 / complex128 / Python scalars); reduced-precision arguments only fix the kind."""
    if gvs == xs:
        return True
    if type(gvs) is not type(xs):
        return False
    gs, xsh = getattr(gvs, "shape", None), getattr(xs, "shape", None)
    if isinstance(xsh, (tuple, list, dict)) and not all(isinstance(d, int) for d in (xsh if not isinstance(xsh, dict) else [])):
        # container spaces: compare leaf-wise
        try:
            if isinstance(xsh, dict):
                return isinstance(gs, dict) and list(gs) == list(xsh) and all(_same_space(gs[k], xsh[k], strict_dtype) for k in xsh)
            return len(gs) == len(xsh) and all(_same_space(a, b, strict_dtype) for a, b in zip(gs, xsh))
        except Exception:
            return False
    xd, gd = getattr(xs, "dtype", None), getattr(gvs, "dtype", None)
    if xd is None or gd is None or gs != xsh:
        return False
    if strict_dtype and xd in (onp.dtype("float64"), onp.dtype("complex128")):
        return gd == xd
    return gd.kind == xd.kind


def _reverse(A, f_ag, argnum, call_args, x):
    r = {}
    try:
        vjp, val = A["autograd"].make_vjp(f_ag, argnum)(*call_args)
    except Skip:
        raise
    except Exception as e:
        r["exc"] = "%s: %s" % (type(e).__name__, str(e)[:160])
        return r
    r["val"] = val
    if _has_box(val, A):
        r["exc"] = "primal value contains tracer objects"
        r["box_in_primal"] = True
        return r
    try:
        outvs = A["vspace"](val)
        xs = A["vspace"](x)
        n = O.realify(x).size
        rows = {}
        struct_bad = None
        for b in outvs.standard_basis():
            eb = O.realify(b)
            k = int(onp.argmax(onp.abs(eb)))
            g = vjp(b)
            if A["isbox"](g) or _has_box(g, A):
                r["box_in_result"] = True
            try:
                gvs = A["vspace"](g)
                if not _same_space(gvs, xs) and struct_bad is None:
                    struct_bad = (repr(gvs)[:200], repr(xs)[:200])
            except Exception as e:
                struct_bad = struct_bad or ("no vspace: %s" % type(e).__name__, repr(xs)[:200])
            gr = O.realify(g) if O.structure(g)[0] != "obj" else None
            rows[k] = gr
        if not rows:          # output space of dimension 0 (empty array): no basis vector - apply the VJP to the zero cotangent once
            g = vjp(outvs.zeros())
            try:
                gvs = A["vspace"](g)
                if not _same_space(gvs, xs):
                    struct_bad = (repr(gvs)[:200], repr(xs)[:200])
            except Exception as e:
                struct_bad = ("no vspace: %s" % type(e).__name__, repr(xs)[:200])
            r["zero_cotangent_size"] = int(O.realify(g).size)
        r["rows"] = rows
        r["n"] = n
        r["m"] = O.realify(val).size
        r["struct_bad"] = struct_bad
    except Skip:
        raise
    except Exception as e:
        r["exc"] = "%s: %s" % (type(e).__name__, str(e)[:160])
    return r


def _forward(A, f_ag, argnum, call_args, x):
    r = {}
    try:
        jvp = A["autograd"].make_jvp(f_ag, argnum)(*call_args)
        xs = A["vspace"](x)
        val0 = jvp(xs.zeros())[0]
    except Skip:
        raise
    except Exception as e:
        r["exc"] = "%s: %s" % (type(e).__name__, str(e)[:160])
        return r
    r["val"] = val0
    if _has_box(val0, A):
        r["exc"] = "primal value contains tracer objects"
        r["box_in_primal"] = True
        return r
    try:
        cols = {}
        struct_bad = None
        val = None
        for b in xs.standard_basis():
            eb = O.realify(b)
            j = int(onp.argmax(onp.abs(eb)))
            val, t = jvp(b)
            if A["isbox"](t) or _has_box(t, A):
                r["box_in_result"] = True
            try:
                tvs, vvs = A["vspace"](t), A["vspace"](val)
                # the dtype clause is stated for default-precision ARGUMENTS: a float32 argument may carry a float32 tangent
                if not _same_space(tvs, vvs, strict_dtype=_default_precision(xs)) and struct_bad is None:
                    struct_bad = (repr(tvs)[:200], repr(vvs)[:200])
            except Exception as e:
                struct_bad = struct_bad or ("no vspace: %s" % type(e).__name__, "")
            cols[j] = O.realify(t)
        if val is None:     # empty input space: still evaluate once
            val = jvp(xs.zeros())[0]
        r["val"] = val
        r["cols"] = cols
        r["n"] = O.realify(x).size
        r["m"] = O.realify(val).size
        r["struct_bad"] = struct_bad
    except Skip:
        raise
    except Exception as e:
        r["exc"] = "%s: %s" % (type(e).__name__, str(e)[:160])
    return r


def _has_box(v, A):
    if isinstance(v, dict):
        return any(_has_box(x, A) for x in v.values())
    if isinstance(v, (tuple, list)):
        return any(_has_box(x, A) for x in v)
    if isinstance(v, onp.ndarray) and v.dtype == object:
        return any(_has_box(x, A) for x in v.ravel().tolist())
    return A["isbox"](v)


def matrix_from(rows_or_cols, m, n, by_rows):
    """Assemble R (m x n) from rows or F (m x n) from columns; returns (matrix, None) or (None, shape problem)."""
    M = onp.full((m, n), onp.nan)
    for k, v in rows_or_cols.items():
        want = n if by_rows else m
        if v is None or v.size != want:
            return None, "entry %d has %s real coordinates, expected %d" % (k, None if v is None else v.size, want)
        if by_rows:
            M[k, :] = v
        else:
            M[:, k] = v
    return M, None


def expected_rev(J, x, val):
    return (O.signs(val)[:, None] * J) * O.signs(x)[None, :]


# ----------------------------------------------------------------- the generic harness

TOL = 1e-6


def make_harness(spec_name, spec_fn, T, need, judge_fn, prop):
    P = T.points

    def h(ch):
        k = ch.choose("point", list(range(P)))
        Tk = T.at(k)
        if T.cplx:
            Tk.pattern = ch.choose("complex_operands", ["c", "cr", "rc"])
        case = spec_fn(ch, Tk)
        if case is None:
            raise Skip("spec declined")
        if T.cplx and Tk.pattern == "cr" and len(case.ops) < 2:
            raise Skip("operand pattern is redundant for a single operand")
        opts = argnum_options(case)
        which = ch.choose("argnum", opts)
        res = evaluate(case, which, need)
        return case, which, res

    def judge(ch, out):
        case, which, res = out
        return judge_fn(prop, spec_name, ch, case, which, res)

    return h, judge


def base_features(case, which):
    f = dict(case.feat)
    f["argnum"] = "same" if which == "same" else ("joint" if len(which) > 1 else str(which[0]))
    names = list(case.ops)
    cx = ["c" if onp.iscomplexobj(case.ops[n]) else "r" for n in names]
    f["ops_cplx"] = "".join(cx)
    sel = [0] if which == "same" else list(which)
    kinds = {cx[i] for i in sel}
    f["arg_cplx"] = "mixed" if len(kinds) > 1 else ("complex" if "c" in kinds else "real")
    return f


def mk_violation(prop, spec_name, ch, case, which, mode, kind, observed, expected, extra_feat=None):
    feats = base_features(case, which)
    if extra_feat:
        feats.update(extra_feat)
    cfg = dict(expr=case.expr, operands={n: (kind_of(v), list(onp.shape(v))) for n, v in case.ops.items()},
               argnum=feats["argnum"])
    return violation(prop, "cat:" + spec_name, case.name, mode, kind, feats, ch.choices, cfg, observed, expected,
                     repro_src(case, which, mode))


def summarize(M):
    if M is None:
        return None
    return onp.round(M, 6).tolist() if M.size <= 36 else "matrix %s, max|.|=%g" % (M.shape, float(onp.nanmax(onp.abs(M))) if (M.size and not onp.all(onp.isnan(M))) else 0)
