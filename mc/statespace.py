"""Global-state fingerprint of the autograd library (DESIGN 2.6).

fingerprint() summarises every piece of process-global *mutable* state autograd can read:
module-level and class-level containers and scalars of every autograd* module, instances of
autograd classes stored at module level (by their __dict__/slots), mutable default arguments and
closure cells of module-level functions, numpy's error state and the warnings filter list.
It is process-independent (names, lengths, values - no ids) so fingerprints from forked children compare.
"""
import hashlib
import sys
import types
import warnings

SCALARS = (int, float, complex, str, bytes, bool, type(None))


def _name(o):
    if isinstance(o, (types.FunctionType, types.BuiltinFunctionType, type, types.MethodType)):
        return "%s.%s" % (getattr(o, "__module__", "?"), getattr(o, "__qualname__", getattr(o, "__name__", "?")))
    if isinstance(o, SCALARS):
        return repr(o)
    return type(o).__name__


_MEMO = {}


def _summ(o, depth=0):
    if isinstance(o, SCALARS):
        return repr(o)
    if depth == 0:
        key = id(o)
        if key not in _MEMO:
            _MEMO[key] = _summ1(o, 0)
        return _MEMO[key]
    return _summ1(o, depth)


def _summ1(o, depth):
    if depth > 3:
        return type(o).__name__
    if isinstance(o, dict):
        items = sorted((_name(k), _summ(v, depth + 1) if isinstance(v, (dict, list, set, tuple)) or _is_autograd_instance(v) else _name(v))
                       for k, v in list(o.items()))
        return ("dict", len(o), hashlib.sha1(repr(items).encode()).hexdigest()[:12])
    if isinstance(o, (list, tuple)):
        items = [_summ(v, depth + 1) if isinstance(v, (dict, list, set, tuple, *SCALARS)) or _is_autograd_instance(v) else _name(v) for v in o]
        return (type(o).__name__, len(o), hashlib.sha1(repr(items).encode()).hexdigest()[:12])
    if isinstance(o, (set, frozenset)):
        items = sorted(_name(v) for v in o)
        return ("set", len(o), hashlib.sha1(repr(items).encode()).hexdigest()[:12])
    if _is_autograd_instance(o):
        d = {}
        try:
            d.update(vars(o))
        except TypeError:
            pass
        for cls in type(o).__mro__:
            for s in getattr(cls, "__slots__", ()) or ():
                if hasattr(o, s):
                    d[s] = getattr(o, s)
        return (type(o).__name__, tuple(sorted((k, _summ(v, depth + 1)) for k, v in d.items())))
    return _name(o)


def _is_autograd_instance(o):
    m = getattr(type(o), "__module__", "") or ""
    return m.startswith("autograd") and not isinstance(o, (type, types.FunctionType))


_BORING = {}   # (module, name) -> id of a value already classified as stateless (builtin, ufunc, plain function, foreign type)


def state():
    """dict: location -> summary of every mutable global the library owns."""
    out = {}
    _MEMO.clear()
    for mname, mod in sorted(sys.modules.items()):
        if not (mname == "autograd" or mname.startswith("autograd.")) or mod is None:
            continue
        for k, v in vars(mod).items():
            if _BORING.get((mname, k)) == id(v):
                continue
            if k.startswith("__") or isinstance(v, types.ModuleType):
                continue
            loc = "%s.%s" % (mname, k)
            if hasattr(v, "cache_info") and callable(getattr(v, "cache_info", None)):
                # functools.lru_cache / cache wrappers keep state that no module-level container shows
                try:
                    ci = v.cache_info()
                    out[loc + ".cache"] = "lru(currsize=%d)" % ci.currsize
                except Exception:
                    pass
                continue
            if not isinstance(v, (dict, list, set, type, types.FunctionType, *SCALARS)) and not _is_autograd_instance(v):
                _BORING[(mname, k)] = id(v)
                continue
            if isinstance(v, types.FunctionType) and not any(isinstance(d, (dict, list, set)) for d in (v.__defaults__ or ())) \
                    and not any(_cell_is_container(c) for c in (v.__closure__ or ())):
                _BORING[(mname, k)] = id(v)
                continue
            if isinstance(v, type) and not (getattr(v, "__module__", "") or "").startswith("autograd"):
                _BORING[(mname, k)] = id(v)
                continue
            if isinstance(v, (dict, list, set)) or isinstance(v, SCALARS) or _is_autograd_instance(v):
                out[loc] = _summ(v)
            elif isinstance(v, type) and (getattr(v, "__module__", "") or "").startswith("autograd"):
                for ck, cv in sorted(vars(v).items()):
                    if ck.startswith("__"):
                        continue
                    if isinstance(cv, (dict, list, set)) or (isinstance(cv, SCALARS) and not isinstance(cv, str)):
                        out["%s.%s" % (loc, ck)] = _summ(cv)
            elif isinstance(v, types.FunctionType) and (v.__module__ or "").startswith("autograd"):
                for i, dv in enumerate(v.__defaults__ or ()):
                    if isinstance(dv, (dict, list, set)):
                        out["%s.__defaults__[%d]" % (loc, i)] = _summ(dv)
                for i, cell in enumerate(v.__closure__ or ()):
                    try:
                        cv = cell.cell_contents
                    except ValueError:
                        continue
                    if isinstance(cv, (dict, list, set)):
                        out["%s.__closure__[%d]" % (loc, i)] = _summ(cv)
    try:
        import numpy
        out["numpy.geterr"] = repr(sorted(numpy.geterr().items()))
    except Exception:
        pass
    out["warnings.filters"] = (len(warnings.filters), hashlib.sha1(repr([(f[0], str(f[1]), _name(f[2]), str(f[3]), f[4]) for f in warnings.filters]).encode()).hexdigest()[:12])
    return out


def _cell_is_container(c):
    try:
        return isinstance(c.cell_contents, (dict, list, set))
    except ValueError:
        return False


def fingerprint(extra=None):
    s = state()
    if extra:
        s["harness"] = repr(extra)
    return hashlib.sha1(repr(sorted(s.items())).encode()).hexdigest()[:16]


def diff(a, b):
    keys = sorted(set(a) | set(b))
    return {k: (a.get(k), b.get(k)) for k in keys if a.get(k) != b.get(k)}
