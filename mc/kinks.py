"""Non-smooth points that the rules handle explicitly (second clause of C01; forward mode for C02).

Enumerated: every tie pattern of <= 3 (quick) / 4 (thorough) elements for max/min/amax/amin (1-D and along an axis of a 2-D
array), ties of maximum/minimum/fmax/fmin, abs/absolute/fabs at 0, clip at either bound, x**y at x = 0 for y in {0,1,2,3,1.5}.
Oracle: the derivative must be finite and a valid generalised gradient - for every direction d of the direction alphabet
{+-e_i, ones, alternating signs} its pairing with d lies between the two one-sided directional derivatives (one-sided
Richardson differences of plain NumPy).
"""
import itertools
import warnings

import numpy as onp

from . import oracles as O
from .explore import Skip
from .findings import violation


def tie_vectors(n):
    """All vectors of length n over a 2- or 3-letter value alphabet that contain at least one tie at the extreme."""
    out = []
    for combo in itertools.product([1.0, 2.0, 0.5], repeat=n):
        if len(set(combo)) < n:
            out.append(onp.array(combo))
    return out


def cases(quick):
    C = []
    nmax = 3 if quick else 4
    for name in ("max", "min", "amax", "amin"):
        for n in range(2, nmax + 1):
            for v in tie_vectors(n):
                C.append((name, "np.%s(x)" % name, dict(x=v), 0))
        for v in tie_vectors(3)[:12]:
            m = onp.stack([v, v[::-1]])
            for ax in (0, 1, -1, None):
                C.append((name, "np.%s(x, axis=%r)" % (name, ax), dict(x=m), 0))
            C.append((name, "np.%s(x, axis=(0, 1), keepdims=True)" % name, dict(x=m), 0))
    for name in ("maximum", "minimum", "fmax", "fmin"):
        for xv, yv in [([1.0, 2.0, 0.5], [1.0, 1.0, 0.5]), ([1.0, 1.0], [1.0, 1.0]), ([0.0, 3.0], [0.0, 2.0])]:
            for arg in (0, 1):
                C.append((name, "np.%s(x, y)" % name, dict(x=onp.array(xv), y=onp.array(yv)), arg))
        C.append((name, "np.%s(x, y)" % name, dict(x=onp.array([1.0, 2.0]), y=1.0), 0))
        C.append((name, "np.%s(x, y)" % name, dict(x=onp.array([1.0, 2.0]), y=1.0), 1))
        C.append((name, "np.%s(x, x)" % name, dict(x=onp.array([1.0, 2.0])), 0))
    for name in ("abs", "absolute", "fabs"):
        for v in ([0.0], [0.0, 1.5, -2.0], [0.0, 0.0]):
            C.append((name, "np.%s(x)" % name, dict(x=onp.array(v)), 0))
        C.append((name, "np.%s(x)" % name, dict(x=0.0), 0))
    C.append(("abs", "abs(x)", dict(x=onp.array([0.0, -1.0])), 0))
    for v, lo, hi in (([0.5, 1.0, 2.0, 3.0], 1.0, 2.0), ([1.0, 1.0], 1.0, 2.0), ([2.0, 0.0], 0.0, 2.0)):
        C.append(("clip", "np.clip(x, %r, %r)" % (lo, hi), dict(x=onp.array(v)), 0))
        C.append(("clip", "x.clip(%r, %r)" % (lo, hi), dict(x=onp.array(v)), 0))
    for y in (0.0, 1.0, 2.0, 3.0, 1.5):
        C.append(("power", "np.power(x, %r)" % y, dict(x=onp.array([0.0, 1.5])), 0))
        C.append(("power", "x ** %r" % y, dict(x=onp.array([0.0, 0.0])), 0))
        if y > 0:
            C.append(("power", "np.power(x, y)", dict(x=onp.array([0.0, 2.0]), y=onp.array([y, y])), 1))
    # smooth points that sit on a removable singularity or a value-dependent guard of the RULE (not of the function): the same
    # bracket oracle decides them (both one-sided derivatives coincide)
    C.append(("sinc", "np.sinc(x)", dict(x=onp.array([0.0, 0.5])), 0))
    C.append(("sinc", "np.sinc(x)", dict(x=0.0), 0))
    for v in ([0.0, 2.0, 3.0], [2.0, 0.0, 3.0], [0.0, 0.0, 3.0]):
        C.append(("prod", "np.prod(x)", dict(x=onp.array(v)), 0))
    C.append(("prod", "np.prod(x, axis=1)", dict(x=onp.array([[0.0, 2.0], [3.0, 4.0]])), 0))
    C.append(("prod", "np.prod(x, axis=0, keepdims=True)", dict(x=onp.array([[0.0, 2.0], [3.0, 0.0]])), 0))
    C.append(("det", "np.linalg.det(x)", dict(x=onp.array([[1.0, 2.0], [2.0, 4.0]])), 0))
    C.append(("det", "np.linalg.det(x)", dict(x=onp.zeros((2, 2))), 0))
    for name in ("sort", "msort"):
        for v in ([1.0, 1.0, 2.0], [2.0, 1.0, 2.0]):
            if name == "sort":
                C.append((name, "np.sort(x)", dict(x=onp.array(v)), 0))
    C.append(("square", "np.square(x)", dict(x=onp.array([0.0, 1.0])), 0))
    C.append(("multiply", "x * x * x", dict(x=onp.array([0.0, 1.0])), 0))
    C.append(("divide", "x / (1.0 + x * x)", dict(x=onp.array([0.0, 1.0])), 0))
    C.append(("arctan2", "np.arctan2(x, y)", dict(x=onp.array([0.0, 1.0]), y=onp.array([1.0, 0.0])), 0))
    C.append(("logaddexp", "np.logaddexp(x, y)", dict(x=onp.array([1.0, 800.0]), y=onp.array([1.0, 800.0])), 0))
    C.append(("tanh", "np.tanh(x)", dict(x=onp.array([0.0, 400.0])), 0))
    C.append(("var", "np.var(x)", dict(x=onp.array([1.0, 1.0, 1.0])), 0))
    C.append(("mean", "np.mean(x)", dict(x=onp.array([0.0])), 0))
    return C


def directions(n):
    D = []
    for i in range(n):
        e = onp.zeros(n)
        e[i] = 1.0
        D += [e, -e]
    if n > 1:
        D.append(onp.ones(n))
        D.append(-onp.ones(n))
        D.append(onp.array([(-1.0) ** i for i in range(n)]))
        D.append(onp.array([(-1.0) ** (i + 1) for i in range(n)]))
    return D


def factory(prop, mode):
    def make(quick, seed):
        import autograd
        import autograd.numpy as anp
        CS = cases(quick)

        def h(ch):
            name, expr, ops, arg = ch.choose("case", CS)
            names = list(ops)
            f = eval("lambda np, %s: %s" % (", ".join(names), expr))
            vals = [ops[n] for n in names]
            x0 = onp.asarray(vals[arg], dtype=float)

            def f_np(xx):
                a = list(vals)
                a[arg] = xx if isinstance(vals[arg], onp.ndarray) else float(xx)
                return onp.asarray(f(onp, *a), dtype=float)

            with warnings.catch_warnings():
                warnings.simplefilter("ignore")
                with onp.errstate(all="ignore"):
                    y0 = f_np(x0)
                    m, n = y0.size, x0.size
                    try:
                        if mode == "rev":
                            vjp, val = autograd.make_vjp(lambda *a: f(anp, *a), arg)(*vals)
                            M = onp.zeros((m, n))
                            for k in range(m):
                                b = onp.zeros(y0.shape)
                                b.reshape(-1)[k] = 1.0
                                b = b if y0.shape else 1.0
                                M[k] = onp.asarray(vjp(b), dtype=float).reshape(-1)
                        else:
                            jvp = autograd.make_jvp(lambda *a: f(anp, *a), arg)(*vals)
                            M = onp.zeros((m, n))
                            for j in range(n):
                                t = onp.zeros(x0.shape)
                                t.reshape(-1)[j] = 1.0
                                t = t if x0.shape else 1.0
                                M[:, j] = onp.asarray(jvp(t)[1], dtype=float).reshape(-1)
                    except Exception as e:
                        return name, expr, ops, arg, ("EXC", "%s: %s" % (type(e).__name__, str(e)[:100])), None
                    bad = []
                    # x**1.5 at x=0: the function is one-sided and not analytic there, so one-sided *differences* cannot resolve its
                    # (zero) one-sided derivative; only finiteness is judged for non-integer exponents
                    finite_only = name == "power" and "1.5" in expr or (name == "power" and "y" in ops and float(onp.asarray(ops["y"]).ravel()[0]) % 1 != 0)
                    if not onp.all(onp.isfinite(M)):
                        bad.append(("not-finite", M.tolist(), None))
                    elif not finite_only:
                        for d in directions(n):
                            dp = O.one_sided(f_np, x0, d)
                            dm = -O.one_sided(f_np, x0, -d)
                            pair = M @ d
                            for k in range(m):
                                a_, b_ = dp[k], dm[k]
                                if not (onp.isfinite(a_) and onp.isfinite(b_)):
                                    a_, b_ = (a_ if onp.isfinite(a_) else b_), (b_ if onp.isfinite(b_) else a_)   # function defined on one side only
                                    if not onp.isfinite(a_):
                                        continue
                                lo, hi = min(a_, b_) - 1e-6, max(a_, b_) + 1e-6
                                if dp[k] != dp[k] or abs(dp[k]) > 1e3 or abs(dm[k]) > 1e3:
                                    continue        # infinite one-sided slope: no finite generalised gradient exists in this direction
                                if not lo <= pair[k] <= hi:
                                    bad.append(("outside-one-sided-bracket", dict(direction=d.tolist(), output=k, pairing=float(pair[k])), [float(lo), float(hi)]))
                                    break
                            if bad:
                                break
            return name, expr, ops, arg, M, bad

        def judge(ch, out):
            name, expr, ops, arg, M, bad = out
            feats = dict(point="kink", arg=arg)
            repro = "import autograd, autograd.numpy as np, numpy as onp\n%s\nprint(autograd.jacobian(lambda %s: %s, %d)(%s))" % (
                "\n".join("%s = onp.array(%r)" % (k, onp.asarray(v).tolist()) for k, v in ops.items()), ", ".join(ops), expr, arg, ", ".join(ops))
            v = None
            if isinstance(M, tuple):
                v = violation(prop, "kinks", name, mode, "raised-at-handled-kink", feats, ch.choices, dict(expr=expr), M[1], None, repro)
            elif bad:
                v = violation(prop, "kinks", name, mode, bad[0][0], feats, ch.choices, dict(expr=expr, operands={k: onp.asarray(x).tolist() for k, x in ops.items()}),
                              bad[0][1], bad[0][2], repro)
            return dict(v=v, nontrivial=True, outcome=(name, None if isinstance(M, tuple) else tuple(onp.round(M, 6).reshape(-1))), counts={},
                        sample=dict(choices=list(ch.choices), expr=expr, operands={k: onp.asarray(x).tolist() for k, x in ops.items()}, argnum=arg,
                                    derivative=None if isinstance(M, tuple) else onp.round(M, 6).tolist()))

        return h, judge
    return make
