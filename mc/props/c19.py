"""C19 - results independent of call history, including failed calls: explicit-state BFS with fault injection.

State   = fingerprint of all process-global library state (mc/statespace.py) + harness flags.
Events  = succeeding nested differentiations (every mode assignment, depth 1..3), failing ones (fault at the
          k-th forward op / k-th derivative rule / trace exit, at every nesting level, caught at every enclosing
          level - which then continues and differentiates again - or not at all), re-entrant uses.
Each transition runs in a *fresh fork of a pristine parent*: replay the history (real calls only, the harness never
writes library state), run the event, fingerprint, run the canary set, fingerprint again.
Invariants on every transition / state:
  * the event's observation equals its observation from the pristine state (bit-for-bit) and the symbolic reference
  * the canary set gives results bit-identical to the pristine process and equal to closed forms
  * running the canaries does not change the state.
"""
import itertools
import math
import multiprocessing
import warnings

from .. import symref as S
from ..explore import HarnessError
from ..findings import violation
from ..runner import Report
from ..statespace import diff, fingerprint, state

PROP = "C19"


class Fault(Exception):
    pass


ARM = {"spec": None}
STORE = {}
_L = {}


def lib():
    if _L:
        return _L
    import numpy as onp
    import autograd
    import autograd.numpy as anp
    from autograd.extend import defjvp, defvjp, primitive

    def fire(phase, tag):
        if ARM["spec"] == (phase,) + tuple(tag):
            ARM["spec"] = None
            raise Fault("%s fault at %r" % (phase, tag))

    @primitive
    def p(a, tag):
        fire("fwd", tag)
        return onp.sin(a) + 0.5 * a

    def p_vjp(ans, a, tag):
        def vjp(g):
            fire("rule", tag)
            return g * (anp.cos(a) + 0.5)
        return vjp

    def p_jvp(g, ans, a, tag):
        fire("rule", tag)
        return g * (anp.cos(a) + 0.5)

    defvjp(p, p_vjp)
    defjvp(p, p_jvp)

    @primitive
    def r(a):  # rule re-enters autograd: its VJP starts a differentiation from inside the backward pass
        return a ** 3

    defvjp(r, lambda ans, a: lambda g: g * autograd.grad(lambda z: z ** 3)(a))

    @primitive
    def rf(a):  # rule whose inner differentiation fails and is caught inside the rule
        return a ** 3

    def rf_vjp(ans, a):
        def vjp(g):
            ARM["spec"] = ("fwd", 8, 1)
            try:
                d = autograd.grad(lambda z: p(z, (8, 1)))(a)
            except Fault:
                d = autograd.grad(lambda z: z ** 3)(a)
            return g * d
        return vjp

    defvjp(rf, rf_vjp)

    @primitive
    def s(a):  # forward re-enters autograd
        return autograd.grad(lambda z: z ** 3)(a)

    defvjp(s, lambda ans, a: lambda g: g * 6 * a)
    ck = autograd.checkpoint(lambda x: anp.sin(x) * x)   # created once: making a primitive registers it (by design)
    from autograd.misc.flatten import flatten as _flatten
    from autograd.misc import const_graph as _const_graph
    from autograd.extend import VJPNode as _VJPNode, register_notrace as _register_notrace

    @primitive
    def rev_const(x):       # valid use of the extension API: opaque to reverse mode, differentiable in forward mode
        return x

    defjvp(rev_const, lambda g, ans, x: g)
    _register_notrace(_VJPNode, rev_const)
    _leaky = lambda x: anp.sum(anp.where(x > 0.0, x, 0.1 * x) ** 2)
    _leaky_np = lambda x: onp.sum(onp.where(x > 0.0, x, 0.1 * x) ** 2)
    _L.update(const_graph=_const_graph, rev_const=rev_const, leaky=_leaky, leaky_np=_leaky_np, x_leaky=onp.array([-1.5, 0.5, 2.0, -0.25]))
    _L.update(onp=onp, anp=anp, autograd=autograd, p=p, r=r, rf=rf, s=s, ck=ck, flatten=_flatten)
    return _L


X0 = 0.9


# ------------------------------------------------------------------ events

def event_list(quick):
    evs = []
    for L in (1, 2, 3):
        for modes in itertools.product("rf", repeat=L):
            evs.append(["nest", L, "".join(modes), None, None])
    for L in (1, 2, 3):
        msets = ["".join(m) for m in itertools.product("rf", repeat=L)]
        if quick and L == 3:
            msets = ["rrr", "fff", "rfr", "frr"]
        for modes in msets:
            faults = []
            for l in range(1, L + 1):
                for k in (1, 2):
                    faults += [["fwd", l, k], ["rule", l, k]]
            faults.append(["exit", L, 0])
            for fault in faults:
                for catch in [None] + list(range(1, fault[1])):
                    evs.append(["nest", L, modes, fault, catch])
    evs += [["mkvjp"], ["callvjp"], ["callvjp_fault", 1], ["callvjp_fault", 2], ["mkhvp"], ["callhvp"], ["callhvp_fault", 1],
            ["rule_reenter", 1], ["rule_reenter", 2], ["fwd_reenter"], ["rule_reenter_fail"]]
    evs += [["lib", k] for k in sorted(LIB_EVENTS)]
    return evs


def _lib_events():
    """Calls into the shipped rules that fail or degenerate on their own (no injected fault), and calls with other dtypes of
    the shapes the canaries use: whatever they leave behind must not show in later results."""
    Lb = lib()
    ag, np, onp = Lb["autograd"], Lb["anp"], Lb["onp"]
    f32 = lambda *sh: (onp.arange(int(onp.prod(sh)) or 1, dtype=onp.float32)[: int(onp.prod(sh)) or 1].reshape(sh) + onp.float32(0.3))

    def errstate_raise():
        with onp.errstate(all="raise"):
            return ag.grad(lambda x: np.sum(np.log(x)))(onp.array([0.0, 1.0, 2.0]))
    return {
        "eigh_degenerate": lambda: ag.grad(lambda A: np.sum(np.linalg.eigh(A)[1]))(onp.eye(2)),
        "eigh_degenerate3": lambda: ag.grad(lambda A: np.sum(np.linalg.eigh(A)[1] * onp.arange(9.0).reshape(3, 3)))(onp.diag([1.0, 1.0, 2.0])),
        "inv_singular": lambda: ag.grad(lambda A: np.sum(np.linalg.inv(A)))(onp.zeros((2, 2))),
        "cholesky_not_pd": lambda: ag.grad(lambda A: np.sum(np.linalg.cholesky(A)))(-onp.eye(2)),
        "f32_shapes": lambda: [ag.grad(lambda x: np.sum(np.sin(x) * x))(f32(*sh)) for sh in [(3,), (2,), (), (2, 2)]],
        "f16_c64_shapes": lambda: [ag.grad(lambda x: np.sum(x * x))(f32(3).astype(onp.float16)),
                                   ag.grad(lambda x: np.real(np.sum(x * np.conj(x))))(f32(3).astype(onp.complex64)),
                                   ag.jacobian(lambda x: np.sin(x))(f32(2)), ag.hessian(lambda x: np.sum(x ** 3))(f32(2))],
        "errstate_raise": errstate_raise,
        "sqrt_at_zero": lambda: ag.grad(lambda x: np.sum(np.sqrt(x)))(onp.array([0.0, 1.0, 4.0])),
        "bad_shape_forward": lambda: ag.grad(lambda x: np.sum(np.dot(x, onp.ones(4))))(onp.ones(3)),
        "int_argument": lambda: ag.grad(lambda x: x * 2.0)(3),
        "fwd_inv_singular": lambda: ag.make_jvp(lambda A: np.linalg.inv(A))(onp.zeros((2, 2)))(onp.ones((2, 2)))[1],
        "flatten_unflattenable_leaf": lambda: Lb["flatten"]({"w": onp.array([1.0, 2.0]), "b": None, "z": 5.0}),
        "flatten_func_bad_then_good": lambda: _flatten_seq(Lb),
        "det_singular_twice": lambda: _det_singular_twice(Lb),
        # tracing with ANOTHER node type (autograd.misc.const_graph) and a primitive that is opaque to reverse mode only
        "const_graph_leaky": lambda: ("PAIR", Lb["const_graph"](Lb["leaky"])(Lb["x_leaky"]), Lb["leaky_np"](Lb["x_leaky"])),
        "revconst_reverse": lambda: ("PAIR", ag.grad(lambda x: x * Lb["rev_const"](x))(1.7), 1.7),
        "revconst_forward": lambda: ("PAIR", ag.deriv(lambda x: x * Lb["rev_const"](x))(1.7), 3.4),
        # a failure of the library itself (not an injected one) INSIDE an enclosing differentiation, caught there, followed by more nested work
        "nested_type_error_rr": lambda: ("PAIR", ag.grad(_after_inner_failure(ag, ag.grad, "int"))(1.5), 12.0),
        "nested_type_error_ff": lambda: ("PAIR", ag.deriv(_after_inner_failure(ag, ag.deriv, "int"))(1.5), 12.0),
        "nested_type_error_rf": lambda: ("PAIR", ag.grad(_after_inner_failure(ag, ag.deriv, "str"))(1.5), 12.0),
        "nested_vector_output_error": lambda: ("PAIR", ag.grad(_after_inner_failure(ag, ag.grad, "vector"))(1.5), 12.0),
        "nested_missing_rule_error": lambda: ("PAIR", ag.grad(_after_inner_failure(ag, ag.grad, "norule", Lb))(1.5), 12.0),
        # calls whose arguments compare EQUAL as Python values but mean different things (a memo keyed on them would confuse the two), and the same
        # shapes broadcast in different positions
        "index_int_list": lambda: ("PAIR", ag.grad(lambda x: np.sum(x[[1, 1]] * onp.array([2.0, 5.0])))(onp.array([0.3, 0.6])), onp.array([0.0, 7.0])),
        "index_bool_list": lambda: ("PAIR", ag.grad(lambda x: np.sum(x[[True, True]] * onp.array([2.0, 5.0])))(onp.array([0.3, 0.6])), onp.array([2.0, 5.0])),
        "index_int_list01": lambda: ("PAIR", ag.grad(lambda x: np.sum(x[[0, 1]] * onp.array([2.0, 5.0])))(onp.array([0.3, 0.6])), onp.array([2.0, 5.0])),
        "index_bool_list01": lambda: ("PAIR", ag.grad(lambda x: np.sum(x[[False, True]] * 7.0))(onp.array([0.3, 0.6])), onp.array([0.0, 7.0])),
        "broadcast_leading": lambda: ("PAIR", ag.grad(lambda u: np.sum((u + _Y3()) * _W3()))(onp.array([0.1, 0.2, 0.3])), _W3().sum(0)),
        "einsum_trailing_ellipsis": lambda: ("PAIR", ag.grad(lambda v: np.sum(np.einsum(v, [0, Ellipsis], _Y3(), [0, Ellipsis], [0, Ellipsis]) * _W3()))(onp.array([0.1, 0.2, 0.3])),
                                             (_Y3() * _W3()).sum(1)),
        # the same rule used twice on same-shape arrays inside ONE second-order differentiation: state a rule parks between the inner and the
        # outer backward pass (an index permutation, a broadcast scale, an index list) is overwritten by the second use
        "hess_two_sorts": lambda: ("PAIR", onp.round(ag.hessian(lambda x: np.sum(np.sort(x) ** 2 * onp.array([1.0, 2.0, 4.0])) + np.sum(np.sort(-x) ** 2 * onp.array([8.0, 16.0, 32.0])))(
            onp.array([0.5, 0.25, 1.0])), 9) + 0.0, onp.diag([36.0, 66.0, 24.0])),
        "hess_two_vars": lambda: ("PAIR", onp.round(ag.hessian(lambda x: 4.0 * np.var(x) + 8.0 * np.var(-x[::-1]) + 16.0 * np.std(2.0 * x) ** 2)(
            onp.array([0.5, 0.25, 1.0, -2.0])), 9) + 0.0, 76.0 * (0.5 * onp.eye(4) - 0.125 * onp.ones((4, 4)))),
        "hess_two_takes": lambda: ("PAIR", onp.round(ag.hessian(lambda x: np.sum(x[[0, 2]] ** 2 * onp.array([1.0, 2.0])) + np.sum(x[[1, 2]] ** 2 * onp.array([4.0, 8.0])) + np.max(x) ** 2 + np.max(-x) ** 2)(
            onp.array([0.5, 0.25, 1.0])), 9) + 0.0, onp.diag([2.0, 10.0, 22.0])),
        "take_float32_index_then_int64": lambda: ("PAIR", [ag.grad(lambda x: np.sum(x[onp.array([1, 1], dtype=onp.int32)]))(onp.array([0.3, 0.6])),
                                                           ag.grad(lambda x: np.sum(x[onp.array([1, 0], dtype=onp.int64)] * onp.array([1.0, 3.0])))(onp.array([0.3, 0.6]))],
                                                  [onp.array([0.0, 2.0]), onp.array([3.0, 1.0])]),
    }


def _Y3():
    import numpy
    return numpy.arange(9.0).reshape(3, 3) * 0.5 - 1.0


def _W3():
    import numpy
    return numpy.array([[1.0, -2.0, 0.5], [0.25, 3.0, -1.0], [2.0, 0.0, 1.5]])


def _after_inner_failure(ag, D, how, Lb=None):
    def outer(x):
        try:
            if how == "int":
                D(lambda y: y * 1.0)(2)                      # TypeError: can't differentiate w.r.t. int
            elif how == "str":
                D(lambda y: 1.0)("s")
            elif how == "vector":
                ag.grad(lambda y: y * Lb_onp().ones(2))(2.0)  # TypeError: grad of a vector-valued function
            else:
                D(lambda y: Lb["onp"].cbrt(y) if False else __import__("autograd.numpy", fromlist=["x"]).cbrt(y))(2.0)   # NotImplementedError
        except (TypeError, NotImplementedError):
            pass
        return x * D(lambda y: x * y * y)(2.0)               # = 4 x**2  ->  8 x
    return outer


def _Lb_onp():
    import numpy
    return numpy


Lb_onp = _Lb_onp


def _flatten_seq(Lb):
    try:
        Lb["flatten"]((1.0, [object()], 2.0))
    except Exception:
        pass
    v, un = Lb["flatten"]((1.0, [2.0, Lb["onp"].array([3.0, 4.0])]))
    return ("PAIR", v, Lb["onp"].array([1.0, 2.0, 3.0, 4.0]))


def _det_singular_twice(Lb):
    ag, np, onp = Lb["autograd"], Lb["anp"], Lb["onp"]
    S = onp.array([[1.0, 2.0], [2.0, 4.0]])
    out = []
    for _ in range(2):
        try:
            out.append(ag.grad(lambda A: np.linalg.slogdet(A)[1])(S))
        except Exception as e:
            out.append("EXC:" + type(e).__name__)
    return ("PAIR", repr(out[0]) if isinstance(out[0], str) else out[0], repr(out[1]) if isinstance(out[1], str) else out[1])


LIB_EVENTS = ["eigh_degenerate", "eigh_degenerate3", "inv_singular", "cholesky_not_pd", "f32_shapes", "f16_c64_shapes", "errstate_raise",
              "sqrt_at_zero", "bad_shape_forward", "int_argument", "fwd_inv_singular", "flatten_unflattenable_leaf", "flatten_func_bad_then_good",
              "det_singular_twice", "const_graph_leaky", "revconst_reverse", "revconst_forward", "nested_type_error_rr", "nested_type_error_ff", "nested_type_error_rf",
              "nested_vector_output_error", "nested_missing_rule_error", "index_int_list", "index_bool_list", "index_int_list01", "index_bool_list01",
              "broadcast_leading", "einsum_trailing_ellipsis", "take_float32_index_then_int64", "hess_two_sorts", "hess_two_vars", "hess_two_takes"]


def run_event(ev):
    """Run one event against the real library; returns an observation (float repr / exception type name)."""
    Lb = lib()
    ag, p = Lb["autograd"], Lb["p"]
    kind = ev[0]
    ARM["spec"] = None
    try:
        with warnings.catch_warnings():
            warnings.simplefilter("ignore")
            if kind == "nest":
                _, L, modes, fault, catch = ev
                exit_fault = bool(fault) and fault[0] == "exit"
                if fault and not exit_fault:
                    ARM["spec"] = tuple(fault)
                if exit_fault:
                    warnings.simplefilter("error")
                D = lambda m, f: ag.grad(f) if m == "r" else ag.deriv(f)

                def level(l, xout):
                    def f(x):
                        y = p(p(x, (l, 1)), (l, 2))
                        if xout is not None:
                            y = y * xout
                        if l < L:
                            if catch == l:
                                try:
                                    inner = D(modes[l], level(l + 1, x))(x)
                                except (Fault, UserWarning):
                                    inner = D(modes[l], lambda z: z * z * x)(x)
                            else:
                                inner = D(modes[l], level(l + 1, x))(x)
                            return y * inner
                        return 1.5 if exit_fault else y
                    return f

                return repr(float(D(modes[0], level(1, None))(X0)))
            fan = lambda x: p(x, (9, 1)) * x + p(x, (9, 2)) * x       # fan-out: x feeds four operations
            if kind == "mkvjp":
                STORE["vjp"] = ag.make_vjp(fan)(X0)[0]
                STORE["hist"] = tuple(h for h in STORE.get("hist", ()) if "vjp" not in h)
                return "stored"
            if kind == "callvjp":
                return repr(float(STORE["vjp"](1.0))) if "vjp" in STORE else "none"
            if kind == "callvjp_fault":     # the k-th rule of the stored function's backward pass fails; the function is kept
                if "vjp" not in STORE:
                    return "none"
                ARM["spec"] = ("rule", 9, ev[1])
                return repr(float(STORE["vjp"](1.0)))
            if kind == "mkhvp":
                STORE["hvp"] = ag.make_hvp(fan)(X0)[0]
                STORE["hist"] = tuple(h for h in STORE.get("hist", ()) if "hvp" not in h)
                return "stored"
            if kind == "callhvp":
                return repr(float(STORE["hvp"](1.0))) if "hvp" in STORE else "none"
            if kind == "callhvp_fault":
                if "hvp" not in STORE:
                    return "none"
                ARM["spec"] = ("rule", 9, ev[1])
                return repr(float(STORE["hvp"](1.0)))
            if kind == "lib":
                r = _lib_events()[ev[1]]()
                if isinstance(r, tuple) and len(r) == 3 and r[0] == "PAIR":       # (got, independently obtained expectation)
                    return ("VAL:" if plain(r[1]) == plain(r[2]) else "MISMATCH:") + repr((plain(r[1]), plain(r[2])))[:300]
                return "VAL:" + repr(plain(r))[:300]
            if kind == "rule_reenter":
                f = lambda x: Lb["r"](x) * x
                return repr(float(ag.grad(f)(1.1) if ev[1] == 1 else ag.grad(ag.grad(f))(1.1)))
            if kind == "fwd_reenter":
                return repr(float(ag.grad(lambda x: Lb["s"](x) * x)(1.1)))
            if kind == "rule_reenter_fail":
                return repr(float(ag.grad(lambda x: Lb["rf"](x) * x)(1.1)))
            raise HarnessError("unknown event %r" % (ev,))
    except (Fault, UserWarning) as e:
        if kind.startswith("call") and kind.endswith("_fault"):
            STORE["hist"] = tuple(STORE.get("hist", ())) + (kind,)
        return "EXC:" + type(e).__name__
    except HarnessError:
        raise
    except Exception as e:
        return "EXC:%s:%s" % (type(e).__name__, str(e)[:80])
    finally:
        ARM["spec"] = None


def expected(ev):
    """Independent expectation of run_event(ev): symbolic reference, or the exception that must escape."""
    kind = ev[0]
    if kind == "nest":
        _, L, modes, fault, catch = ev
        exit_fault = bool(fault) and fault[0] == "exit"
        if fault and catch is None:
            return "EXC:UserWarning" if exit_fault else "EXC:Fault"
        sp = lambda a: S.sin(a) + 0.5 * a

        def B(l):
            xl = S.Var("x%d" % l)
            y = sp(sp(xl))
            if l > 1:
                y = y * S.Var("x%d" % (l - 1))
            if l < L:
                if fault and catch == l:
                    inner = 2.0 * xl * xl
                else:
                    inner = B(l + 1).d("x%d" % (l + 1)).sub("x%d" % (l + 1), xl)
                return y * inner
            return S.Const(1.5) if exit_fault else y

        return B(1).d("x1").ev({"x1": X0})
    if kind == "mkvjp":
        return "stored"
    if kind == "callvjp":        # d/dx [2 x p(x)], p(x) = sin x + x/2      (or "none" when nothing is stored)
        return 2 * ((math.cos(X0) + 0.5) * X0 + math.sin(X0) + 0.5 * X0)
    if kind in ("callvjp_fault", "callhvp_fault"):
        return "EXC:Fault"
    if kind == "mkhvp":
        return "stored"
    if kind == "callhvp":        # d2/dx2 [2 x p(x)] = 2 (2 p'(x) + x p''(x)) = 2 (2 cos x + 1 - x sin x)
        return 2 * (2 * math.cos(X0) + 1.0 - X0 * math.sin(X0))
    if kind == "rule_reenter":
        return 4 * 1.1 ** 3 if ev[1] == 1 else 12 * 1.1 ** 2
    if kind == "fwd_reenter":
        return 9 * 1.1 ** 2
    if kind == "rule_reenter_fail":
        return 4 * 1.1 ** 3


def obs_matches_expected(ev, obs):
    want = expected(ev)
    if ev[0] in ("callvjp", "callhvp", "callvjp_fault", "callhvp_fault") and obs == "none":
        return True, want       # nothing stored yet in this history
    if isinstance(want, str):
        return obs == want, want
    if want is None and ev[0] == "lib":
        return not obs.startswith("MISMATCH"), "the two results of the event to agree"
    try:
        got = float(obs)
    except ValueError:
        return False, want
    return abs(got - want) <= 1e-9 * (1 + abs(want)), want


# ------------------------------------------------------------------ canaries

def canaries():
    Lb = lib()
    ag, np, onp = Lb["autograd"], Lb["anp"], Lb["onp"]
    g, d = ag.grad, ag.deriv
    a3 = onp.array([1.0, 2.0, 3.0])
    a2 = onp.array([0.1, 0.2])
    mkv = lambda: ag.make_vjp(lambda x: x * x)(3.0)[0]
    return [
        ("rev1", lambda: g(lambda x: np.sin(x) * x)(0.7), math.cos(.7) * .7 + math.sin(.7)),
        ("fwd1", lambda: d(lambda x: np.sin(x) * x)(0.7), math.cos(.7) * .7 + math.sin(.7)),
        ("revrev", lambda: g(g(lambda x: x ** 4))(2.0), 48.0),
        ("closure", lambda: g(lambda x: x * g(lambda y: x * y * y)(3.0))(2.0), 24.0),
        ("fwd_over_rev", lambda: ag.make_jvp(g(lambda x: x ** 3))(2.0)(1.0)[1], 12.0),
        ("rev_over_fwd", lambda: g(lambda x: d(lambda y: y ** 3 * x)(x))(2.0), 36.0),
        ("depth3", lambda: g(lambda x: x * d(lambda y: y * x * g(lambda z: z * z * y * x)(y))(x))(1.5), 30 * 1.5 ** 4),
        ("container", lambda: g(lambda t: t[0] * t[1]["a"] + t[0])((2.0, {"a": 3.0})), (4.0, {"a": 2.0})),
        ("sparse", lambda: g(lambda x: x[0] * x[0] + np.sum(x) + x[1])(a3), [3.0, 2.0, 1.0]),
        ("jacobian", lambda: ag.jacobian(lambda x: np.sin(x))(a2), [[math.cos(.1), 0.0], [0.0, math.cos(.2)]]),
        ("hessian", lambda: ag.hessian(lambda x: np.sum(x ** 3))(a3[:2]), [[6.0, 0.0], [0.0, 12.0]]),
        ("vjp_twice", lambda: (lambda v: (v(1.0), v(2.0)))(mkv()), (6.0, 12.0)),
        ("checkpoint", lambda: g(Lb["ck"])(0.7), math.cos(.7) * .7 + math.sin(.7)),
        ("div_at_zero", lambda: g(lambda x: np.sum(np.sqrt(x)))(onp.array([0.0, 1.0, 4.0])), [math.inf, 0.5, 0.25]),
        ("arr3_mixed", lambda: g(lambda x: np.sum(np.sin(x)) + x[0] * x[1])(a3 * 0.1), [math.cos(.1) + .2, math.cos(.2) + .1, math.cos(.3)]),
        ("arr0d", lambda: g(lambda x: np.sin(x) * x[()])(onp.array(0.7)), math.cos(.7) * .7 + math.sin(.7)),
        ("flatten", lambda: list(Lb["flatten"]((1.5, {"b": a2, "a": [2.5]}))[0]) + list(g(lambda v: np.sum(Lb["flatten"]((v, v * v))[0] ** 2))(a2)),
         [1.5, 2.5, 0.1, 0.2, 2 * 0.1 + 4 * 0.1 ** 3, 2 * 0.2 + 4 * 0.2 ** 3]),
        ("index_lists", lambda: [g(lambda x: np.sum(x[[1, 1]] * onp.array([2.0, 5.0])))(a2), g(lambda x: np.sum(x[[True, True]] * onp.array([2.0, 5.0])))(a2),
                                 g(lambda x: np.sum(x[[False, True]] * 7.0))(a2), g(lambda x: np.sum(x[[0, 1]] * onp.array([2.0, 5.0])))(a2)],
         [[0.0, 7.0], [2.0, 5.0], [0.0, 7.0], [2.0, 5.0]]),
        ("leaky", lambda: g(Lb["leaky"])(Lb["x_leaky"]), [0.02 * -1.5, 1.0, 4.0, 0.02 * -0.25]),
        ("revconst", lambda: [g(lambda x: x * Lb["rev_const"](x))(1.7), d(lambda x: x * Lb["rev_const"](x))(1.7)], [1.7, 3.4]),
        ("det", lambda: g(lambda A_: np.linalg.det(A_))(onp.array([[2.0, 0.5], [0.25, 1.0]])), [[1.0, -0.25], [-0.5, 2.0]]),
        ("eigh", lambda: g(lambda A: np.sum(np.linalg.eigh(A)[1][:, 0] ** 2 * onp.array([1.0, 3.0])))(onp.array([[2.0, 0.5], [0.5, 1.0]])), None),
    ]


def plain(x):
    onp = lib()["onp"]
    if isinstance(x, dict):
        return {k: plain(v) for k, v in sorted(x.items())}
    if isinstance(x, (tuple, list)):
        return [plain(v) for v in x]
    if isinstance(x, onp.ndarray):
        if x.dtype != onp.float64:
            return {"dtype": str(x.dtype), "value": repr(x.tolist())}
        return plain(x.tolist())
    if isinstance(x, onp.generic) and x.dtype != onp.float64:
        return {"dtype": str(x.dtype), "value": repr(x.item())}
    return repr(float(x))


def run_canaries():
    out = {}
    with warnings.catch_warnings():
        warnings.simplefilter("ignore")
        for name, thunk, _ in canaries():
            try:
                out[name] = plain(thunk())
            except Exception as e:
                out[name] = "EXC:%s:%s" % (type(e).__name__, str(e)[:80])
    return out


def close(got, want):
    if isinstance(want, dict):
        return isinstance(got, dict) and sorted(got) == sorted(want) and all(close(got[k], want[k]) for k in want)
    if isinstance(want, (tuple, list)):
        return isinstance(got, list) and len(got) == len(want) and all(close(a, b) for a, b in zip(got, want))
    try:
        if math.isinf(want):
            return float(got) == want
        return abs(float(got) - want) <= 1e-12 * (1 + abs(want))
    except (TypeError, ValueError):
        return False


# ------------------------------------------------------------------ one transition in a fresh fork

def harness_flags():
    # the stored closures own a computation graph: what has been done to them is part of the state
    return ("vjp" in STORE, "hvp" in STORE, tuple(STORE.get("hist", ()))[-2:])


def after_event(ev, s0=None):
    """Runs in a throw-away fork whose state is the one reached by the history."""
    s0 = s0 if s0 is not None else state()
    fp0 = fingerprint_of(s0)
    obs = run_event(ev) if ev is not None else None
    s1 = state()
    fp1 = fingerprint_of(s1)
    can = run_canaries()
    s2 = state()
    return dict(obs=obs, fp0=fp0, fp1=fp1, fp2=fingerprint_of(s2), can=can,
                changed={k: [str(a), str(b)] for k, (a, b) in diff(s0, s1).items()},
                can_changed={k: [str(a), str(b)] for k, (a, b) in diff(s1, s2).items()})


def fingerprint_of(s):
    import hashlib
    return hashlib.sha1(repr((sorted(s.items()), harness_flags())).encode()).hexdigest()[:16]


def isolated(fn, *args):
    """Run fn(*args) in a fork of the current process; return its (pickled) result. The caller's state is untouched."""
    import os
    import pickle
    r, w = os.pipe()
    pid = os.fork()
    if pid == 0:
        code = 0
        try:
            os.close(r)
            try:
                payload = pickle.dumps(("ok", fn(*args)))
            except BaseException as e:  # noqa
                import traceback
                payload = pickle.dumps(("err", traceback.format_exc()))
            with os.fdopen(w, "wb") as f:
                f.write(payload)
        except BaseException:
            code = 1
        finally:
            os._exit(code)
    os.close(w)
    with os.fdopen(r, "rb") as f:
        data = f.read()
    os.waitpid(pid, 0)
    if not data:
        raise HarnessError("isolated child died without a result")
    tag, val = pickle.loads(data)
    if tag == "err":
        raise HarnessError("isolated child failed:\n" + val)
    return val


def _from_history(history, evs):
    for e in history:
        run_event(e)
    s0 = state()
    return [isolated(after_event, ev, s0) for ev in evs]


def chunk(args):
    """Executed by a long-lived *pristine* pool worker: never runs an event itself, only forks."""
    history, evs = args
    return isolated(_from_history, history, evs)


def transition(args):
    history, ev = args
    return chunk((history, [ev]))[0]


def fresh_pool(n):
    return multiprocessing.get_context("fork").Pool(n)


# ------------------------------------------------------------------ history = other calls of the same primitive

_CASES = {}


def _cases_for(spec_name, limit):
    """Catalogue leaves of one spec (at most `limit`, evenly spaced over at most the first 12000 of its configuration space).
    Built once in the pristine pool worker (construction runs no autograd code); forked children inherit the list."""
    key = (spec_name, limit)
    if key in _CASES:
        return _CASES[key]
    from ..catalog.base import Tier
    from ..judges import load_catalog
    from ..explore import Skip, leaves as all_leaves
    fn, fam = load_catalog()[spec_name]
    T = Tier(True, 0, reduced=(fam not in ("F", "L")), cplx=(fam == "F"))
    cases = []

    def h(ch):
        Tk = T.at(0)
        if T.cplx:
            Tk.pattern = ch.choose("complex_operands", ["rc", "c"])
        case = fn(ch, Tk)
        if case is None:
            raise Skip("declined")
        return case

    for ch, out in all_leaves(h, max_leaves=12000):
        if not isinstance(out, Skip):
            cases.append(out)
    if len(cases) > limit:
        step = len(cases) / float(limit)
        cases = [cases[int(k * step)] for k in range(limit)]
    _CASES[key] = cases
    return cases


def _leaf_results(spec_name, limit, order, only=None):
    """Reverse-mode gradients of the selected leaves, computed one after the other in THIS process."""
    import hashlib
    import numpy as onp
    from .. import walk as W
    from ..oracles import realify
    cases = _cases_for(spec_name, limit)
    idx = list(range(len(cases))) if only is None else [i for i in only if i < len(cases)]
    if order == "reversed":
        idx.reverse()
    A = W.ag()
    res = {}
    with warnings.catch_warnings():
        warnings.simplefilter("ignore")
        with onp.errstate(all="ignore"):
            for i in idx:
                case = cases[i]
                f = case.fn()
                vals = [case.ops[n] for n in case.ops]
                if order == "inplace":
                    # the SAME array objects are handed in twice, their contents changed in place in between (x += step, the
                    # usual optimisation loop); the second result must equal the one obtained with fresh copies of the new contents
                    def once(args):
                        try:
                            vjp, val = A["autograd"].make_vjp(lambda *a: f(A["anp"], *a), 0)(*args)
                            g = vjp(A["vspace"](val).ones())
                            return hashlib.sha1(realify(g).tobytes() + realify(val).tobytes()).hexdigest()[:16]
                        except Exception as e:
                            return "EXC:" + type(e).__name__
                    objs = [v.copy() if isinstance(v, onp.ndarray) else v for v in vals]
                    once(objs)
                    for o in objs:
                        if isinstance(o, onp.ndarray) and o.dtype.kind in "fc" and o.size:
                            o *= 0.97
                            o += 0.011
                    second = once(objs)
                    fresh = once([v.copy() if isinstance(v, onp.ndarray) else v for v in objs])
                    res[i] = "same" if second == fresh else "differs:%s/%s" % (second, fresh)
                    continue
                try:
                    vjp, val = A["autograd"].make_vjp(lambda *a: f(A["anp"], *a), 0)(*vals)
                    g = vjp(A["vspace"](val).ones())
                    r = hashlib.sha1(realify(g).tobytes() + realify(val).tobytes()).hexdigest()[:16]
                except Exception as e:
                    r = "EXC:" + type(e).__name__
                res[i] = r
    return res


def _describe(spec_name, limit, i):
    import numpy as onp
    case = _cases_for(spec_name, limit)[i]
    return "%s with operands %r" % (case.expr, [(list(onp.shape(v)), str(getattr(v, "dtype", type(v).__name__))) for v in case.ops.values()])


def catalog_history_job(args):
    """Pristine pool worker.  (a) every selected leaf of the spec sequentially in one fork, in forward and in reversed order: a
    result that depends on which calls came earlier differs between the two passes;  (b) a few leaves alone in fresh forks;
    (c) every leaf that differs anywhere is re-run alone in a fresh fork to name the correct value."""
    spec_name, limit, nsingle = args
    cases = _cases_for(spec_name, limit)
    seq = isolated(_leaf_results, spec_name, limit, "forward")
    rev = isolated(_leaf_results, spec_name, limit, "reversed")
    n = len(cases)
    singles = sorted(set(int(k * n / float(nsingle)) for k in range(nsingle))) if n else []
    suspects = [i for i in seq if rev.get(i) != seq[i]]
    alone = {}
    for i in sorted(set(singles) | set(suspects[:20])):
        alone[i] = isolated(_leaf_results, spec_name, limit, "forward", [i]).get(i)
    bad = []
    inpl = isolated(_leaf_results, spec_name, limit, "inplace")
    for i, r in inpl.items():
        if r != "same":
            got, want = r.split(":", 1)[1].split("/")
            bad.append(("after-an-earlier-call-with-the-same-array-objects-(contents-changed-in-place)", i, _describe(spec_name, limit, i), got, want))
    for i, r in alone.items():
        for name, other in (("after-earlier-calls", seq), ("after-later-calls", rev)):
            if other.get(i) != r:
                bad.append((name, i, _describe(spec_name, limit, i), other.get(i), r))
    return spec_name, n, len(alone), bad


def seeds(quick):
    fail = ["nest", 1, "r", ["fwd", 1, 1], None]
    fail3 = ["nest", 3, "rrr", ["fwd", 3, 1], None]
    ks = (1, 2, 8, 60) if quick else (1, 2, 8, 1000)
    return [[fail] * k for k in ks] + [[fail3] * 2]


def run(ctx):
    rep = Report("fault_enumeration")
    lib()
    evs = event_list(ctx.quick)
    depth = 3 if ctx.quick else 4
    with fresh_pool(ctx.ncpu) as pool:
        base = pool.apply(transition, (([], None),))
    can0 = base["can"]
    # closed forms for the canaries in the pristine process (independent of any history)
    for name, _, want in canaries():
        if want is not None and not close(can0[name], want):
            rep.violations.append(violation(PROP, "bfs", "canary:" + name, "-", "canary-wrong-in-pristine-process",
                                            dict(canary=name), dict(history=[], event=None), None, can0[name], want,
                                            "fresh interpreter: canary %s" % name))
    # frontier entries: (history, remaining depth).  The pristine state is expanded to the full depth bound, the
    # seeded non-initial states one level less (they are themselves already histories).
    frontier = [([], depth)]
    seen = {base["fp1"]: []}
    for h in seeds(ctx.quick):
        frontier.append((h, depth - 1))
    ntrans = 0
    nstates_by_level = []
    pristine_obs = {}
    samples = []
    distinct_obs = set()
    leaks = set()
    nfail = ncaught = 0
    state_changing_canaries = {}
    with fresh_pool(ctx.ncpu) as pool:
        for level in range(depth):
            CH = 12
            chunks = [(h, evs[i:i + CH]) for h, _d in frontier for i in range(0, len(evs), CH)]
            tasks = [(h, ev) for h, es in chunks for ev in es]
            remaining = {repr(hh): dd for hh, dd in frontier}
            results = (r for rs in pool.imap(chunk, chunks, chunksize=1) for r in rs)
            nxt = []
            for (h, ev), r in zip(tasks, results):
                ntrans += 1
                key = repr(ev)
                distinct_obs.add((key, r["obs"]))
                if r["obs"].startswith("EXC"):
                    nfail += 1
                elif ev[0] == "nest" and ev[3]:
                    ncaught += 1
                for k, ab in r["changed"].items():
                    leaks.add((k, ab[1]))
                if not h:
                    pristine_obs[key] = r["obs"]
                feats = dict(event=ev[0], fault=("none" if len(ev) < 4 or not ev[3] else ev[3][0]),
                             caught=(len(ev) > 4 and ev[4] is not None), history_len=len(h))
                choices = dict(history=h if len(h) < 12 else [h[0], "x%d" % len(h)], event=ev)
                if len(h) >= 12:
                    choices = dict(history_repeat=[h[0], len(h)], event=ev)
                rp = "history (real calls only): %r then event %r" % (h[:3] + (["... x%d" % len(h)] if len(h) > 3 else []), ev)
                ok, want = obs_matches_expected(ev, r["obs"])
                if not ok:
                    rep.violations.append(violation(PROP, "bfs", "event", "-", "wrong-result-after-history" if h else "wrong-result",
                                                    feats, choices, None, r["obs"], want, rp))
                elif key in pristine_obs and r["obs"] != pristine_obs[key] and not (ev[0].startswith("call")):
                    rep.violations.append(violation(PROP, "bfs", "event", "-", "result-depends-on-history", feats, choices, None,
                                                    r["obs"], pristine_obs[key], rp))
                if r["can"] != can0:
                    bad = sorted(k for k in can0 if r["can"].get(k) != can0[k])
                    rep.violations.append(violation(PROP, "bfs", "canary:" + bad[0], "-", "canary-differs-from-fresh-interpreter",
                                                    dict(feats, canary=bad[0]), choices, None,
                                                    {k: r["can"][k] for k in bad}, {k: can0[k] for k in bad}, rp))
                if r["fp2"] != r["fp1"]:
                    # successful calls that change global state (e.g. a lazily filled cache) are not a violation by themselves -
                    # only results are; the change is recorded so that the state count can be read correctly
                    state_changing_canaries.update(r["can_changed"])
                if r["fp1"] not in seen:
                    seen[r["fp1"]] = h + [ev]
                    if remaining[repr(h)] > 1:
                        nxt.append((h + [ev], remaining[repr(h)] - 1))
                    if len(samples) < 6:
                        samples.append(dict(history=(h + [ev])[-3:], history_len=len(h) + 1, observation=r["obs"],
                                            state_change=r["changed"]))
            nstates_by_level.append(len(nxt))
            frontier = nxt
            if not frontier:
                break
    # ---- history made of other calls of the same primitive (all catalogue specs, reduced shapes)
    from ..judges import load_catalog
    specs = sorted(load_catalog())
    limit = 500 if ctx.quick else 4000
    ncat = nalone = 0
    with fresh_pool(ctx.ncpu) as pool:
        for spec_name, n, na, bad in pool.imap_unordered(catalog_history_job, [(sn, limit, 6 if ctx.quick else 20) for sn in specs]):
            ncat += n
            nalone += na
            for name, i, key, got, want in bad[:3]:
                rep.violations.append(violation(PROP, "catalog-history", spec_name, "rev", "result-depends-on-earlier-calls",
                                                dict(spec=spec_name, order=name), dict(spec=spec_name, leaf=i, limit=limit, order=name), dict(call=key),
                                                got, want, "# %s: gradient of leaf %d (%s) differs between a fresh interpreter and %s of the same primitive" % (spec_name, i, key, name)))
    rep.cov["catalogue_history_leaves_run_in_both_orders"] = ncat
    rep.cov["catalogue_history_leaves_rerun_in_fresh_forks"] = nalone
    rep.add(evaluations=ntrans, states=len(seen), transitions=ntrans, traces_validated_against_impl=ntrans,
            distinct_nontrivial=len(distinct_obs), samples=samples, events=len(evs), bfs_depth=depth,
            new_states_per_level=nstates_by_level, failing_transitions=nfail, caught_fault_transitions=ncaught,
            observed_state_changes=sorted(map(list, leaks))[:20], canaries=len(can0), exhaustive=True,
            state_changed_by_successful_canaries=dict(list(state_changing_canaries.items())[:10]),
            rule="BFS over global-state fingerprints; every (state, event) pair up to the depth bound is executed in a fresh "
                 "fork (history replayed by real calls). distinct_nontrivial = distinct (event, observation) pairs")
    rep.assumptions = ["global state = what mc/statespace.py fingerprints (module/class-level containers, scalars, instances, "
                       "mutable defaults/closure cells, numpy errstate, warnings filters)",
                       "history length <= %d beyond the seeded non-initial states (1,2,8,%s uncaught failures)" % (depth, "60" if ctx.quick else "1000"),
                       "faults injected through user primitives registered with autograd.extend"]
    return rep


def replay(ctx, v):
    lib()
    c = v["choices"]
    if "spec" in c:
        with fresh_pool(1) as pool:
            spec_name, n, na, bad = pool.apply(catalog_history_job, ((c["spec"], c["limit"], 6),))
        return v if any(b[1] == c["leaf"] for b in bad) else None
    h = c.get("history")
    if h is None:
        h = [c["history_repeat"][0]] * c["history_repeat"][1]
    ev = c["event"]
    with fresh_pool(1) as pool:
        base = pool.apply(transition, (([], None),))
        if ev is None:
            name = v["features"]["canary"]
            want = dict((n, w) for n, _, w in canaries())[name]
            return None if close(base["can"][name], want) else v
        r = pool.apply(transition, ((h, ev),))
        r0 = pool.apply(transition, (([], ev),))
    kind = v["kind"]
    ok, want = obs_matches_expected(ev, r["obs"])
    bad = None
    if not ok:
        bad = "wrong-result-after-history" if h else "wrong-result"
    elif r["obs"] != r0["obs"] and not ev[0].startswith("call"):
        bad = "result-depends-on-history"
    elif r["can"] != base["can"]:
        bad = "canary-differs-from-fresh-interpreter"
    if bad is None:
        return None
    out = dict(v)
    out["kind"] = bad if bad != kind else kind
    out["observed"] = r["obs"]
    return out
