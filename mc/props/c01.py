"""C01 - reverse-mode derivatives exact for every call configuration (catalogue walk + kink harness)."""
from ..judges import harness_table, run_catalog
from ..par import replay_generic
from ..kinks import factory as kinks_factory

PROP = "C01"
HARNESSES = harness_table(PROP, families=("U", "B", "R", "S", "K", "W", "L"))

HARNESSES["kinks"] = kinks_factory(PROP, "rev")


def run(ctx):
    rep = run_catalog(ctx, __name__, HARNESSES)
    rep.add(rule="one leaf = (primitive spec, point, every spec choice, differentiated argnum); the whole reverse Jacobian "
                 "(all basis cotangents) is compared with the trust-tested numerical Jacobian of NumPy; non-trivial = "
                 "Jacobian with more than one entry and not identically zero",
            bound="quick: rank<=2 dims {1,2,3} + rank 3 dims {1,2}, 1 point; thorough: rank<=3 dims {1,2,3} + rank 4 dims {1,2}, 2 points; plus empty (size-0) broadcast pairs and the kink alphabet")
    rep.assumptions = ["finite point alphabet (quasi-random generic fills, phase shifted by VERIF_SEED)",
                       "oracle: 6th-order Richardson central differences of plain NumPy with a trust test; tolerance 1e-6 relative",
                       "configurations where NumPy itself raises are outside the space (skipped)"]
    return rep


def replay(ctx, v):
    return replay_generic(__name__, ctx, v)
