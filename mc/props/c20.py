"""C20 - concurrent differentiations do not interfere: exploration of thread schedules of the real code.

Thread programs x pairs/triples, under the controlled scheduler of mc/sched.py:
  G0  explicit-state search, unbounded preemptions, scheduling points = accesses to shared mutable attributes
  G1  stateless search with preemption bound 1 (quick) / 2 (thorough), points = every function entry in the tracing core
Oracle: every thread's result equals, bit-for-bit, its solo result under the same scheduler.
"""
import itertools
import warnings

from ..explore import HarnessError
from ..findings import violation
from ..runner import Report

PROP = "C20"
_L = {}


def lib():
    if not _L:
        import autograd
        import autograd.numpy as np
        import numpy as onp
        _L.update(ag=autograd, np=np, onp=onp)
    return _L


def _r(x):
    onp = lib()["onp"]
    return repr(onp.asarray(x).tolist())


def body_simple():
    L = lib()
    return _r(L["ag"].grad(lambda x: x * x)(3.0))


def body_nested():
    L = lib()
    return _r(L["ag"].grad(L["ag"].grad(lambda x: x ** 4))(2.0))


def body_closure():
    g = lib()["ag"].grad
    return _r(g(lambda x: x * g(lambda y: x * y * y)(3.0))(2.0))


def body_fwdrev():
    ag = lib()["ag"]
    return _r(ag.make_jvp(ag.grad(lambda x: x ** 3))(2.0)(1.0)[1])


def body_jacobian():
    L = lib()
    return _r(L["ag"].jacobian(lambda x: L["np"].sin(x) * x[0])(L["onp"].array([0.3, 0.9])))


def body_jacobian2():     # same output shape and dtype as body_jacobian, different function and point
    L = lib()
    return _r(L["ag"].jacobian(lambda y: y ** 2 + 3.0 * y)(L["onp"].array([1.5, -0.5])))


def body_hessian():
    L = lib()
    return _r(L["ag"].hessian(lambda x: L["np"].sum(x ** 3) * x[0])(L["onp"].array([0.3, 0.9])))


def body_depth3():
    ag = lib()["ag"]
    g, d = ag.grad, ag.deriv
    return _r(g(lambda x: x * d(lambda y: y * x * g(lambda z: z * z * y * x)(y))(x))(1.5))


def body_fwd():
    ag = lib()["ag"]
    return _r(ag.deriv(lambda x: x * ag.deriv(lambda y: x * y * y)(x))(2.0))


def body_fwd_t():        # forward mode with a non-unit tangent (a tangent stored anywhere shared would be visible)
    L = lib()
    return _r(L["ag"].make_jvp(lambda y: y ** 3)(L["onp"].array([1.5, -0.5]))(L["onp"].array([2.0, -3.0]))[1])


def body_fwdrev_t():
    L = lib()
    np = L["np"]
    return _r(L["ag"].make_jvp(L["ag"].grad(lambda x: np.sum(np.sin(x) * x)))(L["onp"].array([0.3, 0.9]))(L["onp"].array([0.5, 4.0]))[1])


# second-order differentiation through rules of the NumPy layer that build index / mask / scale arrays (sort, var, max, cumsum, getitem): a rule that
# parks such an array in a shared scratch buffer between the inner and the outer pass is disturbed by another thread using the same rule
def body_hess_sort():
    L = lib()
    np_, onp_ = L["np"], L["onp"]
    w = onp_.array([1.0, 2.0, 3.0])
    return _r(L["ag"].grad(lambda x: np_.sum(onp_.array([0.5, -1.0, 2.0]) * L["ag"].grad(lambda z: np_.sum(np_.sort(z) ** 2 * w))(x)))(onp_.array([0.9, 0.1, 0.5])))


def body_grad_sort():
    L = lib()
    np_, onp_ = L["np"], L["onp"]
    return _r(L["ag"].grad(lambda y: np_.sum(np_.sort(y) * onp_.array([3.0, 1.0, 2.0])))(onp_.array([0.2, 0.8, 0.4])))


def body_hess_var():
    L = lib()
    np_, onp_ = L["np"], L["onp"]
    return _r(L["ag"].grad(lambda x: np_.sum(onp_.array([0.5, -1.0, 2.0]) * L["ag"].grad(lambda z: 3.0 * np_.var(z) + np_.max(z) * np_.sum(np_.cumsum(z)))(x)))(onp_.array([0.9, 0.1, 0.5])))


def body_grad_var():
    L = lib()
    np_, onp_ = L["np"], L["onp"]
    return _r(L["ag"].grad(lambda y: 5.0 * np_.var(y) + np_.std(y) + np_.max(y) + np_.sum(np_.cumsum(y)[[0, 2]]))(onp_.array([0.2, 0.8, 0.4])))


_SHARED = {}


def shared():
    """Derivative-function OBJECTS shared by several threads (each thread passes its own arguments)."""
    if not _SHARED:
        ag = lib()["ag"]
        _SHARED["g"] = ag.grad(lambda x, c: c * x * x)
        _SHARED["j"] = ag.make_jvp(ag.grad(lambda x, c: c * x ** 3))
        _SHARED["vg"] = ag.value_and_grad(lambda c, x: c * x ** 2, 1)
    return _SHARED


def body_shared_a():
    return _r(shared()["g"](3.0, 2.0))


def body_shared_b():
    return _r(shared()["g"](3.0, 5.0))


def body_sharedj_a():
    return _r(shared()["j"](2.0, 1.0)(1.0)[1])


def body_sharedj_b():
    return _r(shared()["j"](2.0, 10.0)(1.0)[1])


def body_sharedvg_a():
    return _r(shared()["vg"](2.0, 3.0))


def body_sharedvg_b():
    return _r(shared()["vg"](7.0, 3.0))


BODIES = dict(hess_sort=body_hess_sort, grad_sort=body_grad_sort, hess_var=body_hess_var, grad_var=body_grad_var, fwd_t=body_fwd_t, fwdrev_t=body_fwdrev_t, jacobian2=body_jacobian2, hessian=body_hessian, shared_a=body_shared_a, shared_b=body_shared_b, sharedj_a=body_sharedj_a, sharedj_b=body_sharedj_b,
              sharedvg_a=body_sharedvg_a, sharedvg_b=body_sharedvg_b, simple=body_simple, nested=body_nested, closure=body_closure, fwdrev=body_fwdrev,
              jacobian=body_jacobian, depth3=body_depth3, fwd=body_fwd)
ORDER = ["simple", "nested", "closure", "fwdrev", "fwd", "jacobian", "depth3"]


def combos(quick):
    out = []
    core = ORDER[:5]
    for a, b in itertools.combinations_with_replacement(core, 2):
        out.append((a, b))
    out += [("closure", "jacobian"), ("nested", "depth3"), ("closure", "depth3")]
    out += [("shared_a", "shared_b"), ("sharedj_a", "sharedj_b"), ("sharedvg_a", "sharedvg_b"), ("shared_a", "sharedj_b")]
    out += [("jacobian", "jacobian2"), ("hessian", "jacobian2"), ("fwd", "fwdrev"), ("fwdrev_t", "fwd_t"), ("fwd_t", "fwd")]
    out += [("hess_sort", "grad_sort"), ("hess_var", "grad_var")]
    if not quick:
        out += [("jacobian", "jacobian"), ("depth3", "depth3"), ("fwdrev", "depth3")]
    out = list(dict.fromkeys(out))
    triples = [("simple", "nested", "closure")] if quick else list(itertools.combinations(ORDER[:4], 3))
    return out, triples


def _solo(name, view):
    from .. import sched
    x = sched.Execution([BODIES[name]], [], view)
    with warnings.catch_warnings():
        warnings.simplefilter("ignore")
        r = x.run()[0]
    return r


def _job(args):
    """One (granularity, thread-program tuple) exploration, in a pool worker."""
    gran, names, bound, max_exec = args[:4]
    part = args[4] if len(args) > 4 else None
    from .. import sched
    lib()
    shared()
    sched.install(gran)
    nlocks = sched.replace_real_locks()
    view = sched.View()
    snap = view.snapshot()
    solo = {}
    touched = 0
    for nm in set(names):
        view.restore(snap)
        a = _solo(nm, view)
        touched += view.touched(snap)
        view.restore(snap)
        b = _solo(nm, view)
        if a != b:
            raise HarnessError("solo run of %s not deterministic: %r vs %r" % (nm, a, b))
        solo[nm] = a
    view.restore(snap)      # the explorations start from the pristine library state, not from the one the solo runs left
    expect = {i: solo[n] for i, n in enumerate(names)}
    bodies = [BODIES[n] for n in names]

    def check(res):
        badt = [i for i in expect if res.get(i) != expect[i]]
        return badt or None

    escalated = False
    if gran == "G1" and touched and (bound or 0) < 2 and part is None:
        # a solo run left process-wide state (a module-level container or scalar) different from the pristine library: the code keeps shared
        # mutable state, so this pair is explored one preemption deeper (capped)
        bound, max_exec, escalated = 2, min(max_exec or 20000, 20000), True
    with warnings.catch_warnings():
        warnings.simplefilter("ignore")
        if gran == "G0":
            r = sched.explore_states(bodies, check, view, max_exec=max_exec, stop_after=25)
        else:
            r = sched.explore_bounded(bodies, check, bound, view, max_exec=max_exec, stop_after=25, part=part)
        # replay determinism of the first violating (or the last) schedule
        probe = r["bad"][0][0] if r["bad"] else None
        if probe is not None:
            view.restore(snap)
            x1 = sched.Execution(bodies, probe, view)
            r1 = x1.run()
            view.restore(snap)
            x2 = sched.Execution(bodies, probe, view)
            r2 = x2.run()
            view.restore(snap)
            if r1 != r2 or x1.choices != x2.choices:
                raise HarnessError("schedule replay not deterministic for %r" % (names,))
    r["names"], r["gran"], r["bound"], r["solo"], r["locks_replaced"] = names, gran, bound, solo, nlocks
    r["part"] = part
    r["escalated"], r["touched"] = escalated, touched
    r["info"] = sched.info() if gran == "G0" else dict(mode="G1", instrumented_code_objects=sched.info()["instrumented_code_objects"])
    r["bad"] = r["bad"][:5]
    r["outcomes"] = dict(list(r["outcomes"].items())[:12])
    return r


def run(ctx):
    rep = Report("exploration")
    pairs, triples = combos(ctx.quick)
    jobs = []
    for names in pairs + triples:
        jobs.append(("G0", names, None, 12000 if ctx.quick else 200000))
    g1bound = 1 if ctx.quick else 2
    for names in pairs:
        heavy = any(n in ("depth3", "jacobian") for n in names)
        b = g1bound if not (heavy and not ctx.quick) else 1
        jobs.append(("G1", names, b, 3000 if ctx.quick else 40000))
    if not ctx.quick:
        jobs.append(("G1", triples[0], 1, 40000))
    else:
        # two preemptions (A held inside a pass, B held inside a pass, A goes on to a second pass): one pair, split over 8 workers
        jobs = [("G1", ("simple", "nested"), 2, 100000, (k, 8)) for k in range(8)] + \
               [("G1", ("simple", "simple"), 2, 100000, (k, 4)) for k in range(4)] + \
               [("G1", ("simple", "fwd_t"), 2, 100000, (k, 4)) for k in range(4)] + jobs
    tot = dict(executions=0, transitions=0, states=0, overlapped=0)
    outcomes = 0
    per = []
    hot = None
    with ctx.pool() as pool:
        for r in pool.imap_unordered(_job, jobs, chunksize=1):
            for k in tot:
                tot[k] += r.get(k, 0)
            outcomes += len(r["outcomes"])
            if r["gran"] == "G0":
                hot = r["info"]
            per.append(dict(threads=list(r["names"]) + (["first deviation at point = %d mod %d" % tuple(r["part"])] if r.get("part") else []), granularity=r["gran"], preemption_bound=r["bound"] if r["gran"] == "G1" else "unbounded",
                            executions=r["executions"], states=r.get("states"), transitions=r["transitions"],
                            schedules_with_preemption=r["overlapped"], distinct_outcomes=len(r["outcomes"]), capped=r["capped"],
                            violating=len(r["bad"])))
            if r.get("escalated"):
                rep.cov.setdefault("escalated_to_two_preemptions", []).append(list(r["names"]))
            if r["capped"] and not r["bad"] and not r.get("escalated"):
                rep.cov["exhaustive"] = False
                rep.cov.setdefault("caps_hit", []).append("%s %s: execution cap reached" % (r["gran"], r["names"]))
            for choices, res, badt, npre in r["bad"][:2]:
                feats = dict(granularity=r["gran"], threads="+".join(r["names"]), preemptions=npre)
                rep.violations.append(violation(
                    PROP, "sched", "-", r["gran"], "thread-result-differs-from-solo", feats,
                    dict(gran=r["gran"], names=list(r["names"]), schedule=choices), None,
                    {str(k): v for k, v in res.items()}, {str(i): r["solo"][n] for i, n in enumerate(r["names"])},
                    "threads %r under schedule %r (choice k at the i-th scheduling point; see mc/sched.py); ./check replay <file>" % (
                        list(r["names"]), choices)))
            if len(rep.cov["samples"]) < 6 and r["gran"] == "G0":
                rep.cov["samples"].append(dict(threads=list(r["names"]), granularity=r["gran"], outcomes=r["outcomes"],
                                               executions=r["executions"], states=r.get("states")))
    per.sort(key=lambda d: (d["granularity"], d["threads"]))
    nontriv = sum(1 for d in per if d["schedules_with_preemption"] > 0)
    rep.add(evaluations=tot["executions"], states=tot["states"] + sum(d["executions"] for d in per if d["granularity"] == "G1"),
            transitions=tot["transitions"], traces_validated_against_impl=tot["executions"],
            distinct_nontrivial=tot["overlapped"], schedules_with_a_preemption=tot["overlapped"],
            explorations_with_preemption=nontriv, per_exploration=per, g0_instrumentation=hot, distinct_outcomes_sum=outcomes,
            rule="each execution is one complete schedule of real threads; G0 states = (shared view, per-thread point index and "
                 "values seen); distinct_nontrivial = schedules containing at least one preemption (two differentiations overlap)")
    rep.assumptions = ["sequentially consistent interleaving at the instrumented points; NumPy/BLAS internals are outside the scheduler",
                       "G0 scheduling points: accesses to attributes stored outside __init__ by the tracing core (automatically derived) "
                       "and global stores; G1: every function entry of " + ", ".join(__import__("mc.sched", fromlist=["x"]).CORE_MODULES),
                       "2-3 threads; nesting depth <= 3; G1 preemption bound %d" % g1bound]
    return rep


def replay(ctx, v):
    from .. import sched
    c = v["choices"]
    lib()
    shared()
    sched.install(c["gran"])
    sched.replace_real_locks()
    view = sched.View()
    snap = view.snapshot()
    names = c["names"]
    with warnings.catch_warnings():
        warnings.simplefilter("ignore")
        solo = {}
        for nm in set(names):
            view.restore(snap)
            solo[nm] = _solo(nm, view)
        view.restore(snap)
        x = sched.Execution([BODIES[n] for n in names], c["schedule"], view)
        res = x.run()
        view.restore(snap)
    if x.error:
        return None
    if all(res.get(i) == solo[n] for i, n in enumerate(names)):
        return None
    out = dict(v)
    out["observed"] = {str(k): r for k, r in res.items()}
    return out
