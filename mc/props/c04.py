"""C04 - forward and reverse modes mutually adjoint and linear (catalogue walk, identity check)."""
from ..judges import harness_table, run_catalog
from ..par import replay_generic

PROP = "C04"
HARNESSES = harness_table(PROP, families=("U", "B", "R", "S", "K", "W", "L"))


def run(ctx):
    rep = run_catalog(ctx, __name__, HARNESSES)
    rep.add(rule='one leaf = one call configuration with both rules; forward Jacobian (columns = JVP of basis tangents) must equal the reverse Jacobian (rows = VJP of basis cotangents) under the conjugating pairing to 1e-10; equality on a basis decides adjointness for all v,g; non-trivial = Jacobian not identically zero and larger than 1x1',
            bound="quick: rank<=2 dims {1,2,3} + rank 3 dims {1,2}, 1 point; thorough: rank<=3 dims {1,2,3} + rank 4 dims {1,2}, 2 points")
    rep.assumptions = ['finite point alphabet', 'identity check only (no numerical differentiation)', "linearity of each mode in its (co)tangent is checked separately on basis pairs by the 'linear' harness"]
    return rep


def replay(ctx, v):
    return replay_generic(__name__, ctx, v)
