"""C16 - all differential operators agree with one ground-truth Jacobian.

in-shape x out-shape (ranks 0..3, dims {1,2}) x two closed-form families x every operator x argnum/extra-argument layout.
  A: f(x) = tensordot(W, sin x)        J[o,i] = W[o,i] cos x_i           H[o,i,j] = -W[o,i] sin x_i d_ij
  B: f(x) = sin(tensordot(W, x))       J[o,i] = cos y_o W[o,i]           H[o,i,j] = -sin y_o W[o,i] W[o,j]
"""
import itertools
import warnings

import numpy as onp

from ..explore import Skip
from ..findings import violation
from ..oracles import fill
from ..par import replay_generic, run_harnesses
from ..runner import Report

PROP = "C16"
_L = {}


def lib():
    if not _L:
        import autograd
        import autograd.numpy as anp
        _L.update(ag=autograd, np=anp)
    return _L


def shapes():
    out = [()]
    for r in (1, 2, 3):
        out += list(itertools.product((1, 2), repeat=r))
    return out


OPS = ["jacobian", "grad", "elementwise_grad", "hessian", "make_hvp", "hessian_tensor_product", "tensor_jacobian_product", "make_ggnvp",
       "make_ggnvp-g", "tensor_jacobian_product-prefix1", "tensor_jacobian_product-prefix2", "make_jvp", "deriv", "make_jvp_reversemode", "value_and_grad", "grad_and_aux", "grad_named", "make_vjp", "holomorphic_grad",
       "hessian_vector_product", "vector_jacobian_product"]
LAYOUTS = ["pos0", "pos1", "pos2", "kwargs", "tuple-argnum", "list-argnum", "tuple1-argnum", "list1-argnum", "neg1", "neg2", "neg1-varargs"]


def ops_factory(quick, seed):
    L = lib()
    ag, np = L["ag"], L["np"]
    SH = shapes()

    def h(ch):
        fam = ch.choose("family", ["A", "B"])
        I = ch.choose("in_shape", SH)
        O = ch.choose("out_shape", SH if not quick else [s for s in SH if len(s) <= 2] + [(2, 1, 2)])
        op = ch.choose("operator", OPS)
        layout = ch.choose("layout", LAYOUTS)
        ni, no = int(onp.prod(I)), int(onp.prod(O))
        cplx = op == "holomorphic_grad"
        W = fill(O + I, 1, -1.0, 1.5, seed)
        x = fill(I, 2, 0.2, 1.2, seed, cplx=cplx)
        x = x if I else (complex(x) if cplx else float(x))
        a_extra, b_extra = 1.7, onp.array([0.3, 0.6])
        nI = len(I)

        def core(xx, scale=1.0):
            if fam == "A":
                return scale * np.tensordot(W, np.sin(xx), nI)
            return scale * np.sin(np.tensordot(W, xx, nI))

        # closed forms on flattened indices
        xf = onp.asarray(x).reshape(-1)
        Wm = W.reshape(no, ni)
        if fam == "A":
            Jm = Wm * onp.cos(xf)[None, :]
            Hm = onp.zeros((no, ni, ni), dtype=Jm.dtype)
            for i in range(ni):
                Hm[:, i, i] = -Wm[:, i] * onp.sin(xf[i])
            y = Wm @ onp.sin(xf)
        else:
            y0 = Wm @ xf
            Jm = onp.cos(y0)[:, None] * Wm
            Hm = -onp.sin(y0)[:, None, None] * Wm[:, :, None] * Wm[:, None, :]
            y = onp.sin(y0)
        scale = 1.0
        # --- layouts: where the differentiated argument sits / how extras are passed
        if layout == "pos0":
            fun, args, argnum, kw = (lambda xx: core(xx)), (x,), 0, {}
        elif layout == "pos1":
            fun, args, argnum, kw = (lambda a, xx, b: core(xx) * a / 1.7 + 0.0 * np.sum(b)), (a_extra, x, b_extra), 1, {}
        elif layout == "pos2":
            fun, args, argnum, kw = (lambda a, b, xx: core(xx) + 0.0 * a), (a_extra, b_extra, x), 2, {}
        elif layout == "neg1":       # positions counted from the end
            fun, args, argnum, kw = (lambda a, b, xx: core(xx) + 0.0 * a), (a_extra, b_extra, x), -1, {}
        elif layout == "neg2":
            fun, args, argnum, kw = (lambda a, xx, b: core(xx) * a / 1.7 + 0.0 * np.sum(b)), (a_extra, x, b_extra), -2, {}
        elif layout == "neg1-varargs":
            fun, args, argnum, kw = (lambda *aa: core(aa[-1]) + 0.0 * aa[0] + (7.0 if len(aa) != 3 else 0.0)), (a_extra, b_extra, x), -1, {}
        elif layout == "kwargs":
            scale = 2.5
            fun, args, argnum, kw = (lambda xx, pad, scale=1.0: core(xx, scale) + 0.0 * pad), (x, 0.5), 0, dict(scale=2.5)
        elif layout in ("tuple1-argnum", "list1-argnum"):
            # a one-element tuple/list of positions with a single positional argument: the result is still a 1-tuple
            fun, args, kw = (lambda xx: core(xx)), (x,), {}
            argnum = (0,) if layout == "tuple1-argnum" else [0]
        else:
            # two differentiated arguments selected by a tuple/list of positions; f adds a linear term in the second one
            c2 = fill(O, 5, -1.0, 1.0, seed)
            fun = lambda skip, xx, z: core(xx) + c2 * z
            args = (9.0, x, 0.8)
            argnum = (1, 2) if layout == "tuple-argnum" else [1, 2]
            kw = {}
        Jm, Hm, y = Jm * scale, Hm * scale, y * scale
        J = Jm.reshape(O + I)
        H = Hm.reshape(O + I + I)
        yv = y.reshape(O)
        multi = layout in ("tuple-argnum", "list-argnum")
        scalar_out = no == 1      # grad & co accept any output whose vector space has size 1
        v_in = fill(I, 7, -1.0, 1.0, seed)
        v_in = v_in if I else float(v_in)
        t_out = fill(O, 8, -1.0, 1.0, seed)
        t_out = t_out if O else float(t_out)
        want = None
        got = None
        must_raise = False
        with warnings.catch_warnings():
            warnings.simplefilter("ignore")
            try:
                if layout in ("tuple1-argnum", "list1-argnum"):
                    ones = onp.ones(O) if O else 1.0
                    if op in ("grad", "value_and_grad") and not scalar_out:
                        raise Skip("scalar output only")
                    if op == "grad":
                        got = ag.grad(fun, argnum)(*args)
                    elif op == "value_and_grad":
                        val, got = ag.value_and_grad(fun, argnum)(*args)
                        if not onp.allclose(val, yv, rtol=1e-13, atol=1e-13):
                            got = ("bad-primal", val)
                    elif op == "elementwise_grad":
                        got = ag.elementwise_grad(fun, argnum)(*args)
                    elif op == "make_vjp":
                        got = ag.make_vjp(fun, argnum)(*args)[0](ones)
                    elif op == "make_jvp":
                        got = (ag.make_jvp(fun, argnum)(*args)((v_in,))[1],)
                    else:
                        raise Skip("operator takes a single argnum")
                    want = ((Jm @ onp.asarray(v_in).reshape(-1)).reshape(O),) if op == "make_jvp" else (Jm.sum(axis=0).reshape(I),)
                    if not isinstance(got, tuple):
                        got = ("not-a-tuple", got)
                elif multi:
                    c2m = c2.reshape(no)
                    if op in ("grad", "value_and_grad", "elementwise_grad", "make_vjp"):
                        if op in ("grad", "value_and_grad") and not scalar_out:
                            raise Skip("scalar output only")
                        if op == "grad":
                            got = ag.grad(fun, argnum)(*args)
                        elif op == "value_and_grad":
                            val, got = ag.value_and_grad(fun, argnum)(*args)
                            if not onp.allclose(val, yv + c2 * 0.8, rtol=1e-13, atol=1e-13):
                                got = ("bad-primal", val)
                        elif op == "elementwise_grad":
                            got = ag.elementwise_grad(fun, argnum)(*args)
                        else:
                            vjp, val = ag.make_vjp(fun, argnum)(*args)
                            got = vjp(onp.ones(O) if O else 1.0)
                        want = (Jm.sum(axis=0).reshape(I), float(c2m.sum()))
                    elif op == "make_jvp":
                        val, t = ag.make_jvp(fun, argnum)(*args)((v_in, 0.5))
                        got, want = t, (Jm @ onp.asarray(v_in).reshape(-1)).reshape(O) + c2 * 0.5
                    elif op == "jacobian":
                        must_raise = True
                        got = ag.jacobian(fun, argnum)(*args)
                    else:
                        raise Skip("operator takes a single argnum")
                elif op == "jacobian":
                    got, want = ag.jacobian(fun, argnum)(*args, **kw), J
                elif op == "grad":
                    if not scalar_out:
                        must_raise = True
                    got, want = ag.grad(fun, argnum)(*args, **kw), J.reshape(I)
                elif op == "elementwise_grad":
                    got, want = ag.elementwise_grad(fun, argnum)(*args, **kw), Jm.sum(axis=0).reshape(I)
                elif op == "hessian":
                    got, want = ag.hessian(fun, argnum)(*args, **kw), H
                elif op == "make_hvp":
                    if not scalar_out:
                        must_raise = True
                    hvp, g = ag.make_hvp(fun, argnum)(*args, **kw)
                    got = (hvp(v_in), g)
                    want = ((Hm[0] @ onp.asarray(v_in).reshape(-1)).reshape(I), J.reshape(I))
                elif op in ("hessian_tensor_product", "hessian_vector_product", "tensor_jacobian_product", "vector_jacobian_product") and layout.startswith("neg"):
                    raise Skip("these operators take the vector as an extra trailing argument: a position counted from the end is ambiguous")
                elif op in ("hessian_tensor_product", "hessian_vector_product"):
                    if not scalar_out:
                        must_raise = True
                    got = getattr(ag, op)(fun, argnum)(*(args + (v_in,)), **kw)
                    want = (Hm[0] @ onp.asarray(v_in).reshape(-1)).reshape(I)
                elif op in ("tensor_jacobian_product-prefix1", "tensor_jacobian_product-prefix2"):
                    # a tensor that covers only the LEADING output axes: contracted with those, the rest of the output survives
                    k_ = int(op[-1])
                    if len(O) <= k_ or layout.startswith("neg"):
                        raise Skip("needs an output of higher rank than the tensor")
                    tpre = fill(O[:k_], 9, -1.0, 1.0, seed)
                    got = ag.tensor_jacobian_product(fun, argnum)(*(args + (tpre,)), **kw)
                    want = onp.tensordot(tpre, J, axes=k_)
                elif op in ("tensor_jacobian_product", "vector_jacobian_product"):
                    got = getattr(ag, op)(fun, argnum)(*(args + (t_out,)), **kw)
                    want = (onp.asarray(t_out).reshape(-1) @ Jm).reshape(I)
                elif op in ("make_ggnvp", "make_ggnvp-g"):
                    if len(O) != 1 and op == "make_ggnvp":
                        raise Skip("default g is defined for vector outputs")
                    if op == "make_ggnvp":
                        ggn = ag.make_ggnvp(fun, f_argnum=argnum)(*args, **kw)
                        Hg = onp.eye(no)
                    else:
                        ggn = ag.make_ggnvp(fun, lambda yy: np.sum(yy ** 3), argnum)(*args, **kw)
                        Hg = onp.diag(6 * y)
                    got = ggn(v_in)
                    want = (Jm.T @ (Hg @ (Jm @ onp.asarray(v_in).reshape(-1)))).reshape(I)
                elif op == "make_jvp":
                    val, t = ag.make_jvp(fun, argnum)(*args, **kw)(v_in)
                    got, want = (val, t), (yv, (Jm @ onp.asarray(v_in).reshape(-1)).reshape(O))
                elif op == "deriv":
                    if I != ():
                        raise Skip("deriv is for scalar inputs")
                    got, want = ag.deriv(fun, argnum)(*args, **kw), J
                elif op == "make_jvp_reversemode":
                    got = __import__("autograd.differential_operators", fromlist=["x"]).make_jvp_reversemode(fun, argnum)(*args, **kw)(v_in)
                    want = (Jm @ onp.asarray(v_in).reshape(-1)).reshape(O)
                elif op == "value_and_grad":
                    if not scalar_out:
                        must_raise = True
                    got, want = ag.value_and_grad(fun, argnum)(*args, **kw), (yv, J.reshape(I))
                elif op == "grad_and_aux":
                    if not scalar_out:
                        raise Skip("")
                    aux = {"w": onp.array([1.0, 2.0, 3.0]), "t": (0.5, onp.array([[1.5]]))}
                    g, a = ag.grad_and_aux(lambda *aa, **kk: (fun(*aa, **kk), aux), argnum)(*args, **kw)
                    untouched = isinstance(a, dict) and list(a) == ["w", "t"] and a["w"] is aux["w"] and a["t"][1] is aux["t"][1] and a["t"][0] == 0.5
                    got, want = (g, untouched), (J.reshape(I), True)
                elif op == "grad_named":
                    if not scalar_out or layout != "pos1":
                        raise Skip("")
                    def named(a, xx, b):
                        return fun(a, xx, b)
                    got, want = ag.grad_named(named, "xx")(*args), J.reshape(I)
                elif op == "make_vjp":
                    vjp, val = ag.make_vjp(fun, argnum)(*args, **kw)
                    got, want = (val, vjp(t_out)), (yv, (onp.asarray(t_out).reshape(-1) @ Jm).reshape(I))
                elif op == "holomorphic_grad":
                    if not scalar_out:
                        raise Skip("")
                    got, want = ag.holomorphic_grad(fun, argnum)(*args, **kw), J.reshape(I)
            except Skip:
                raise
            except Exception as e:
                got = ("EXC", "%s: %s" % (type(e).__name__, str(e)[:100]))
        return dict(fam=fam, I=I, O=O, op=op, layout=layout, got=got, want=want, must_raise=must_raise)

    def judge(ch, o):
        feats = dict(operator=o["op"], layout=o["layout"], in_rank=len(o["I"]), out_rank=len(o["O"]), family=o["fam"])
        raised = isinstance(o["got"], tuple) and len(o["got"]) == 2 and isinstance(o["got"][0], str) and o["got"][0] == "EXC"
        v = None
        desc = dict(family=o["fam"], in_shape=list(o["I"]), out_shape=list(o["O"]), operator=o["op"], layout=o["layout"])
        repro = "# C16 %r (W = fill(out+in), see mc/props/c16.py)" % (desc,)
        if o["must_raise"]:
            if not raised:
                v = violation(PROP, "ops", o["op"], "-", "unsupported-request-not-rejected", feats, ch.choices, desc, repr(o["got"])[:200], "an exception", repro)
        elif raised:
            v = violation(PROP, "ops", o["op"], "-", "raised", feats, ch.choices, desc, o["got"][1], None, repro)
        elif not _close(o["got"], o["want"]):
            v = violation(PROP, "ops", o["op"], "-", "wrong-value", feats, ch.choices, desc, repr(o["got"])[:300], repr(o["want"])[:300], repro)
        return dict(v=v, nontrivial=bool(len(o["I"]) + len(o["O"]) > 0), outcome=(o["op"], len(o["I"]), len(o["O"])), counts={"must-raise": int(o["must_raise"])},
                    sample=dict(choices=list(ch.choices), **desc))

    return h, judge


def _close(a, b):
    if isinstance(b, str):
        return a == b
    if isinstance(b, tuple):
        return isinstance(a, (tuple, list)) and len(a) == len(b) and all(_close(x, y) for x, y in zip(a, b))
    if isinstance(b, bool):
        return a is b
    try:
        a_, b_ = onp.asarray(a), onp.asarray(b)
        if a_.dtype.kind not in "fciub":
            return False
        return a_.shape == b_.shape and bool(onp.all(onp.abs(a_ - b_) <= 1e-11 * (1 + onp.abs(b_))))
    except Exception:
        return False


def misc_factory(quick, seed):
    """Operators' documented rejections and pass-through guarantees that are not shape-parametric."""
    L = lib()
    ag, np = L["ag"], L["np"]
    CASES = [
        ("multigrad_dict needs the absent funcsigs module: must raise ImportError", lambda: ag.multigrad_dict(lambda a, b: a * b)(1.0, 2.0), ImportError),
        ("grad of a vector-valued function must raise", lambda: ag.grad(lambda x: x * 2.0)(onp.ones(2)), TypeError),
        ("grad of a complex-valued function must raise", lambda: ag.grad(lambda x: x * (1 + 2j))(1.0), TypeError),
        ("value_and_grad of a vector-valued function must raise", lambda: ag.value_and_grad(lambda x: x * 2.0)(onp.ones(2)), TypeError),
        ("elementwise_grad of a complex-valued function must raise", lambda: ag.elementwise_grad(lambda x: x * 1j)(onp.ones(2)), TypeError),
        ("argnum must be int/tuple/list", lambda: ag.grad(lambda x: x, 1.0), AssertionError),
        ("grad w.r.t. an int argument must raise", lambda: ag.grad(lambda x: x * 2.0)(3), TypeError),
        ("grad w.r.t. a string argument must raise", lambda: ag.grad(lambda x: 2.0)("abc"), TypeError),
    ]
    PASS = [
        ("value_and_grad returns the primal untouched", lambda: ag.value_and_grad(lambda x: np.sum(x ** 2))(onp.array([1.0, 2.0])), (5.0, onp.array([2.0, 4.0]))),
        ("grad_and_aux returns aux untouched (object identity)", lambda: (lambda aux: ag.grad_and_aux(lambda x: (x * x, aux))(3.0)[1] is aux)(onp.array([7.0, 8.0])), True),
        ("kwargs are passed through", lambda: ag.grad(lambda x, p=1.0: p * x * x)(3.0, p=2.0), 12.0),
        ("extra positional arguments are passed through", lambda: ag.grad(lambda a, x, b: a * x * x * b, 1)(2.0, 3.0, 0.5), 6.0),
        ("jacobian of scalar->scalar has shape ()", lambda: onp.shape(ag.jacobian(lambda x: x * x)(3.0)), ()),
        ("outer jacobian through the aux value of grad_and_aux", lambda: ag.jacobian(lambda x: ag.grad_and_aux(lambda y: (np.sum(y ** 2), 3.0 * y * y))(x)[1])(onp.array([1.0, 2.0])),
         onp.diag([6.0, 12.0])),
        ("outer grad through gradient times aux", lambda: ag.grad(lambda x: (lambda ga: np.sum(ga[0] * ga[1]))(ag.grad_and_aux(lambda y: (np.sum(y ** 2), 3.0 * y * y))(x)))(onp.array([1.0, 2.0])),
         onp.array([18.0, 72.0])),
        ("outer grad through the value of value_and_grad", lambda: ag.grad(lambda x: ag.value_and_grad(lambda y: np.sum(y ** 3))(x)[0])(onp.array([1.0, 2.0])), onp.array([3.0, 12.0])),
        ("outer grad through the primal of make_vjp", lambda: ag.grad(lambda x: np.sum(ag.make_vjp(lambda y: y ** 3)(x)[1]))(onp.array([1.0, 2.0])), onp.array([3.0, 12.0])),
        ("outer grad through the primal of make_jvp", lambda: ag.grad(lambda x: np.sum(ag.make_jvp(lambda y: y ** 3)(x)(onp.ones(2))[0]))(onp.array([1.0, 2.0])), onp.array([3.0, 12.0])),
        ("outer deriv through the aux value of grad_and_aux", lambda: ag.deriv(lambda x: ag.grad_and_aux(lambda y: (y ** 2, 5.0 * y ** 3))(x)[1])(2.0), 60.0),
        ("outer grad through make_hvp's gradient value", lambda: ag.grad(lambda x: np.sum(ag.make_hvp(lambda y: np.sum(y ** 3))(x)[1]))(onp.array([1.0, 2.0])), onp.array([6.0, 12.0])),
        ("hessian symmetric", lambda: (lambda Hm: float(onp.max(onp.abs(Hm - Hm.T))))(ag.hessian(lambda x: np.sum(np.sin(x) * x[::-1]))(onp.array([0.3, 0.7, 1.1]))), 0.0),
    ]

    def named_after_collected():
        """grad_named on a function object that is created after another function (other parameter order) was collected, and that
        happens to live at the same address: the result must depend on the function it is given, not on the earlier one."""
        def mk(order):
            if order == 0:
                def f(xx, a, b):
                    return a * xx ** 2 + 0.0 * b
            elif order == 1:
                def f(a, xx, b):
                    return a * xx ** 2 + 0.0 * b
            else:
                def f(a, b, xx):
                    return a * xx ** 2 + 0.0 * b
            return f
        res, reused = [], 0
        prev = None
        for k in range(60):
            order = k % 3
            f = mk(order)
            reused += int(id(f) == prev)
            args = [2.0, 5.0]
            args.insert(order, 3.0)          # xx = 3, a = 2, b = 5  ->  d/dxx = 12
            res.append(float(ag.grad_named(f, "xx")(*args)))
            prev = id(f)
            del f
        return (min(res), max(res), reused > 0)

    PASS.append(("grad_named follows the function it is given (fresh functions reuse addresses of collected ones)", named_after_collected, (12.0, 12.0, True)))

    # operator OBJECTS are reusable: results obtained from one call are not disturbed by a later call of the same operator object
    def _reuse(mk, finish):
        def thunk():
            f = lambda a, x, scale=1.0: scale * a * np.sin(x) * x
            op = mk(f)
            r1 = op(2.0, 0.7, scale=2.0)
            r2 = op(-3.0, 1.9, scale=-0.5)
            return (finish(r1), finish(r2))
        return thunk
    d_ = lambda a, x, s_: s_ * a * (onp.cos(x) * x + onp.sin(x))
    v_ = lambda a, x, s_: s_ * a * onp.sin(x) * x
    PASS.append(("make_jvp operator object called twice, first result evaluated last", _reuse(lambda f: ag.make_jvp(f, 1), lambda j: tuple(float(t) for t in j(1.0))),
                 ((v_(2.0, 0.7, 2.0), d_(2.0, 0.7, 2.0)), (v_(-3.0, 1.9, -0.5), d_(-3.0, 1.9, -0.5)))))
    PASS.append(("make_vjp operator object called twice, first result evaluated last", _reuse(lambda f: ag.make_vjp(f, 1), lambda r: (float(r[1]), float(r[0](1.0)))),
                 ((v_(2.0, 0.7, 2.0), d_(2.0, 0.7, 2.0)), (v_(-3.0, 1.9, -0.5), d_(-3.0, 1.9, -0.5)))))
    PASS.append(("grad operator object called twice", _reuse(lambda f: ag.grad(f, 1), float), (d_(2.0, 0.7, 2.0), d_(-3.0, 1.9, -0.5))))
    PASS.append(("make_hvp operator object called twice, first result evaluated last",
                 _reuse(lambda f: ag.make_hvp(f, 1), lambda r: float(r[1])), (d_(2.0, 0.7, 2.0), d_(-3.0, 1.9, -0.5))))
    # the value handed back by an inner operator is differentiable by the enclosing one even when the inner function ignores its own variable
    PASS.append(("outer grad through value_and_grad's value, inner function ignores its own variable",
                 lambda: ag.grad(lambda x: ag.value_and_grad(lambda y: np.sum(x ** 3))(2.0)[0])(onp.array([1.0, 2.0])), onp.array([3.0, 12.0])))
    PASS.append(("outer grad through make_vjp's primal, inner function ignores its own variable",
                 lambda: ag.grad(lambda x: np.sum(ag.make_vjp(lambda y: x ** 3)(2.0)[1]))(onp.array([1.0, 2.0])), onp.array([3.0, 12.0])))
    PASS.append(("outer grad through make_jvp's primal, inner function ignores its own variable",
                 lambda: ag.grad(lambda x: np.sum(ag.make_jvp(lambda y: x ** 3)(2.0)(1.0)[0]))(onp.array([1.0, 2.0])), onp.array([3.0, 12.0])))
    PASS.append(("outer deriv through value_and_grad's value, inner function ignores its own variable",
                 lambda: ag.deriv(lambda x: ag.value_and_grad(lambda y: x ** 3)(2.0)[0])(2.0), 12.0))
    PASS.append(("three levels: grad of grad through the primal of make_jvp of a function of the two outer variables",
                 lambda: ag.grad(lambda x: ag.grad(lambda y: ag.make_jvp(lambda z: x * x * y * y * y)(1.0)(1.0)[0])(2.0))(3.0), 2 * 3.0 * 3 * 4.0))

    # autograd's container constructors give the constructor's type whatever the traced argument's type is
    ab_ = __import__("autograd.builtins", fromlist=["x"])
    PASS.append(("autograd.builtins.tuple of a traced list is a tuple (primal of make_vjp / make_jvp, aux of grad_and_aux)",
                 lambda: (type(ag.make_vjp(lambda l: ab_.tuple(l))([1.0, 2.0])[1]).__name__, type(ag.make_jvp(lambda l: ab_.tuple(l))([1.0, 2.0])([1.0, 0.0])[0]).__name__,
                          type(ag.grad_and_aux(lambda l: (l[0] * l[1], ab_.tuple(l)))([1.0, 2.0])[1]).__name__,
                          type(ag.make_vjp(lambda t: ab_.list(t))((1.0, 2.0))[1]).__name__), ("tuple", "tuple", "tuple", "list")))

    _x5 = onp.array([0.7, -1.2])
    _v5 = onp.array([1.0, 0.5])
    PASS.append(("outer grad through make_ggnvp with a non-quadratic g (the Hessian of g is taken AT f(x), which depends on x)",
                 lambda: ag.grad(lambda x: np.sum(ag.make_ggnvp(lambda u: u * u, lambda z: np.sum(z ** 4) / 12.0)(x)(_v5)))(_x5), 24.0 * _x5 ** 5 * _v5))
    PASS.append(("outer deriv through make_ggnvp, the enclosing variable scales f",
                 lambda: ag.deriv(lambda y: np.sum(ag.make_ggnvp(lambda u: y * u * u, lambda z: np.sum(z ** 4) / 12.0)(_x5)(_v5)))(1.5),
                 float(onp.sum(4.0 * 4 * 1.5 ** 3 * _x5 ** 6 * _v5))))
    PASS.append(("outer grad through the aux value of grad_and_aux when aux depends only on the ENCLOSING variable",
                 lambda: ag.grad(lambda y: (lambda ga: np.sum(ga[0]) + np.sum(ga[1]))(ag.grad_and_aux(lambda x: (np.sum(x * x * y), 3.0 * np.sin(y)))(_x5)))(_x5),
                 _x5 ** 2 * 0 + 2 * _x5 * 0 + (2 * _x5) * 1.0 * 0 + 3.0 * onp.cos(_x5) + 2 * _x5))

    def h(ch):
        kind = ch.choose("kind", ["must-raise", "pass-through"])
        with warnings.catch_warnings():
            warnings.simplefilter("ignore")
            if kind == "must-raise":
                name, thunk, exc = ch.choose("case", CASES)
                try:
                    r = thunk()
                    return name, ("returned", repr(r)[:100]), exc.__name__
                except Exception as e:
                    return name, ("raised", type(e).__name__), exc.__name__
            name, thunk, want = ch.choose("case", PASS)
            try:
                return name, ("value", thunk()), want
            except Exception as e:
                return name, ("raised", "%s: %s" % (type(e).__name__, e)), want

    def judge(ch, out):
        name, got, want = out
        ok = (got[0] == "raised" and isinstance(want, str)) or (got[0] == "value" and _close(got[1], want))
        v = None if ok else violation(PROP, "misc", name.split(" ")[0], "-", "contract-broken", dict(case=name), ch.choices, dict(case=name), repr(got)[:200], repr(want), "# " + name)
        return dict(v=v, nontrivial=True, outcome=name, counts={}, sample=dict(choices=list(ch.choices), case=name, observed=repr(got)[:80]))

    return h, judge


HARNESSES = {"ops": ops_factory, "misc": misc_factory}


def run(ctx):
    rep = Report("exploration")
    run_harnesses(ctx, rep, __name__, ["ops", "misc"], depth=3)
    rep.add(rule="leaf = (family, in-shape, out-shape, operator, argnum/extras layout); closed-form Jacobian/Hessian contracted with numpy; "
                 "non-trivial = input or output not scalar")
    rep.assumptions = ["in/out shapes of rank 0..3 over dims {1,2} (quick: out rank <= 2 plus (2,1,2))", "two closed-form families; tolerance 1e-11"]
    return rep


def replay(ctx, v):
    return replay_generic(__name__, ctx, v)
