"""C15 - unsupported requests fail loudly; no exported function silently drops dependence.

  scan     the whole exported namespace by introspection (autograd.numpy, .linalg, .fft, .random, ndarray attributes looked up
           on an ArrayBox) x argument templates (all sequences up to the length bound over a small atom alphabet with the
           differentiated array X in every position) x array shapes.  Whenever plain NumPy accepts the call, returns floats and
           the value genuinely varies with X, each mode must either raise or return the Jacobian of the numerical oracle.
           Runs in child processes with crash containment (a template on which plain NumPy crashes/hangs is recorded and skipped).
  options  every declared unsupported option / request must raise at the point of use.
"""
import itertools
import multiprocessing
import os
import re
import shutil
import tempfile
import time
import warnings

import numpy as onp

from .. import oracles as O
from ..findings import violation
from ..runner import Report

PROP = "C15"
EXCLUDE = re.compile(
    r"^(save|load|fromfile|fromregex|genfromtxt|memmap|test|show_|info|set|seed|shuffle|put|place|copyto|fill_diagonal|source|lookfor|"
    r"deprecate|get_include|who|disp|printoptions|errstate|nditer|nested_iters|busday|datetime|is_busday|vectorize|frompyfunc|piecewise|"
    r"apply_|fromfunction|fromiter|fromstring|frombuffer|from_dlpack|require|get_printoptions|geterr|seterr|getbuf|setbuf|may_share|shares_memory|"
    r"array2string|array_repr|array_str|format_float|base_repr|binary_repr|typename|issub|isdtype|can_cast|promote_types|min_scalar_type|"
    r"result_type|common_type|mintypecode|iterable|isfortran|asmatrix|bmat|matrix|open_memmap|DataSource|add_docstring|add_newdoc|broadcast$|"
    r"finfo|iinfo|dtype|poly1d|bytes|default_rng|get_state|set_state|RandomState|Generator|BitGenerator|SeedSequence|MT19937|PCG64|Philox|SFC64|"
    r"unravel_index|ravel_multi_index|ix_|indices|ndindex|ndenumerate|tri$|eye$|identity$|empty|zeros$|ones$|arange|bitwise|invert|left_shift|right_shift|"
    r"gcd|lcm|packbits|unpackbits|histogram|bincount|digitize|in1d|isin|setdiff|setxor|union1d|intersect1d|unique|putmask|choose|take_along_axis|put_along|"
    r"standard_gamma|gamma|dirichlet|wald|vonmises|zipf|geometric|hypergeometric|logseries|negative_binomial|noncentral|multinomial|multivariate|"
    r"permutation|choice|bytes|tomaxint|random_integers|randint|poisson|binomial|pareto|power$|rayleigh|triangular|weibull|laplace|logistic|lognormal|"
    r"gumbel|f$|chisquare|beta$|exponential|standard_|uniform|normal|rand|ranf|sample|random$|random_sample)")
BOX_ATTR_EXCLUDE = {"fill", "itemset", "put", "resize", "setfield", "setflags", "sort", "partition", "byteswap", "tofile", "dump", "dumps", "tobytes",
                    "tostring", "tolist", "item", "view", "getfield", "newbyteorder", "data", "ctypes", "base", "flags", "strides", "itemsize", "nbytes",
                    "flat", "device", "to_device", "mT"}
ATOMS = ["C", 0, 1, 2, -1, 2.5, (0, 1)]
SHAPES = [(3,), (2, 3), (), (2, 2)]
_L = {}


def lib():
    if not _L:
        import autograd
        import autograd.numpy as anp
        import autograd.numpy.linalg  # noqa
        import autograd.numpy.fft  # noqa
        import autograd.numpy.random  # noqa
        _L.update(ag=autograd, np=anp)
    return _L


def templates(maxlen):
    out = []
    for n in range(1, maxlen + 1):
        for pos in range(n):
            for rest in itertools.product(ATOMS, repeat=n - 1):
                t = list(rest)
                t.insert(pos, "X")
                out.append(tuple(t))
    # the differentiated array in TWO positions (a rule may exist for one of them only): the remaining slots from a reduced alphabet
    for n in range(2, min(maxlen, 3) + 1):
        for p1, p2 in itertools.combinations(range(n), 2):
            for rest in itertools.product(["C", 1, 2.5], repeat=n - 2):
                t = list(rest)
                t.insert(p1, "X")
                t.insert(p2, "X2")
                out.append(tuple(t))
    # ... and in THREE positions (the general path of a primitive with more than two traced operands)
    out.append(("X3", "X", "X2"))
    out.append(("X", "X3", "X2"))
    out.append(("X", "X2", "X3"))
    return out


def namespaces():
    L = lib()
    import numpy.linalg
    import numpy.fft
    import numpy.random
    return [("np", L["np"], onp), ("np.linalg", L["np"].linalg, onp.linalg), ("np.fft", L["np"].fft, onp.fft), ("np.random", L["np"].random, onp.random)]


# np.linalg.cholesky / eigh / eigvalsh read one triangle of their argument while autograd's rules return the gradient for
# symmetric perturbations: the raw call has no convention-free Jacobian (the symmetrised compositions are walked by C01).
CONVENTION = {("np.linalg", "cholesky"), ("np.linalg", "eigh"), ("np.linalg", "eigvalsh")}


def items(quick):
    out = []
    for nsname, ans, ons in namespaces():
        for name in sorted(dir(ans)):
            if name.startswith("_") or EXCLUDE.match(name) or (nsname, name) in CONVENTION:
                continue
            af = getattr(ans, name)
            of = getattr(ons, name, None)
            if not callable(af) or of is None or not callable(of) or isinstance(af, type):
                continue
            out.append(("fn", nsname, name))
    for name in sorted(dir(onp.ndarray)):
        if name.startswith("_") or name in BOX_ATTR_EXCLUDE:
            continue
        out.append(("attr", "ndarray", name))
    return out


def value_of(atom, shape, x, Cv):
    if atom == "X":
        return x
    if atom == "C":
        return Cv
    return atom


def instantiate(t, xx, Cv):
    """X2 is a second occurrence of the differentiated array (shifted and scaled so that e.g. clip bounds stay ordered)."""
    return [xx if a == "X" else ((xx * 0.5 + 2.0) if a == "X2" else ((xx * 0.25 - 1.0) if a == "X3" else (Cv if a == "C" else a))) for a in t]


def float_like(r):
    if isinstance(r, (tuple, list)):
        return len(r) > 0 and all(float_like(x) for x in r)
    if isinstance(r, onp.ndarray):
        return r.dtype.kind in "fc" and r.size > 0 and bool(onp.all(onp.isfinite(r)))
    return isinstance(r, (float, complex, onp.floating, onp.complexfloating)) and bool(onp.isfinite(r))


def out_positions(of):
    """Positional slots that are OUTPUT buffers (`out=`): passing an array there is an in-place request, outside the scan."""
    import inspect
    if isinstance(of, onp.ufunc):
        return set(range(of.nin, of.nin + of.nout))
    try:
        names = list(inspect.signature(of).parameters)
        return {i for i, n in enumerate(names) if n == "out"}
    except (TypeError, ValueError):
        return set()


def scan_item(item, maxlen, seed):
    """All templates x shapes for one exported callable / attribute. Returns (stats, violations, samples)."""
    L = lib()
    ag, anp = L["ag"], L["np"]
    kind, nsname, name = item
    stats = dict(calls=0, accepted=0, varying=0, raised_rev=0, raised_fwd=0, correct_rev=0, correct_fwd=0, undecided=0, nonfloat=0)
    vios, samples = [], []
    if kind == "fn":
        ans = dict((n, a) for n, a, o in namespaces())[nsname]
        ons = dict((n, o) for n, a, o in namespaces())[nsname]
        af, of = getattr(ans, name), getattr(ons, name)
        call_np = lambda args: of(*args)
        call_ag = lambda args: af(*args)
        outs = out_positions(of)
        tmpls = [t for t in templates(maxlen) if not any(isinstance(a, str) and i in outs for i, a in enumerate(t))]
    else:
        call_np = lambda args: _attr_call(args[0], name, args[1:], copy=True)
        call_ag = lambda args: _attr_call(args[0], name, args[1:], copy=False)
        tmpls = [t for t in templates(maxlen) if t[0] == "X"]
    for shape in SHAPES:
        n = int(onp.prod(shape))
        x0 = O.fill(shape, 1, 0.3, 1.7, seed)
        Cv = O.fill(shape, 2, 0.4, 1.6, seed)
        d1 = O.fill(shape, 3, -1.0, 1.0, seed)
        for t in tmpls:
            stats["calls"] += 1
            pos = t.index("X")

            def f_np(xx):
                return call_np(instantiate(t, xx, Cv))

            with warnings.catch_warnings():
                warnings.simplefilter("ignore")
                with onp.errstate(all="ignore"):
                    try:
                        r0 = f_np(x0.copy())
                    except BaseException as e:
                        if isinstance(e, (KeyboardInterrupt, SystemExit)):
                            raise
                        continue
                    stats["accepted"] += 1
                    if not float_like(r0):
                        stats["nonfloat"] += 1
                        continue
                    try:
                        r1 = f_np(x0 + 1e-3 * d1)
                        r2 = f_np(x0 - 7e-4 * d1[::-1] if shape else x0 - 7e-4)
                        v0, v1, v2 = O.realify(r0), O.realify(r1), O.realify(r2)
                        if v1.shape != v0.shape or v2.shape != v0.shape:
                            continue
                        varies = bool(onp.max(onp.abs(v1 - v0)) > 1e-9 * (1 + onp.max(onp.abs(v0)))) and bool(onp.max(onp.abs(v2 - v0)) > 1e-9 * (1 + onp.max(onp.abs(v0))))
                    except Exception:
                        continue
                    if not varies:
                        continue
                    stats["varying"] += 1
                    try:
                        J, _ = O.numjac(f_np, x0.copy())
                    except O.Untrusted:
                        J = None
                    except Exception:
                        J = None

                    def f_ag(xx):
                        return call_ag(instantiate(t, xx, Cv))

                    expr = "%s.%s(%s)" % (nsname, name, ", ".join({"X": "X", "X2": "(X*0.5+2.0)", "X3": "(X*0.25-1.0)", "C": "C"}.get(a, repr(a)) if isinstance(a, str) else repr(a) for a in t)) if kind == "fn" \
                        else "X.%s%s" % (name, "" if not callable(getattr(onp.ndarray, name, None)) else "(%s)" % ", ".join("C" if a == "C" else repr(a) for a in t[1:]))
                    for mode in ("rev", "fwd"):
                        try:
                            M = _autograd_jacobian(ag, f_ag, x0.copy(), mode)
                        except BaseException as e:
                            if isinstance(e, (KeyboardInterrupt, SystemExit)):
                                raise
                            stats["raised_" + mode] += 1
                            continue
                        verdict = None
                        if M is None:
                            verdict = ("silently-independent", "the traced call returned a value that does not depend on X although NumPy's value varies")
                        elif J is None:
                            stats["undecided"] += 1
                        elif M.shape != J.shape:
                            verdict = ("wrong-shape", "Jacobian %s, expected %s" % (M.shape, J.shape))
                        elif not O.maxrel(M, J) <= 1e-6:
                            zero = bool(onp.all(M == 0))
                            verdict = ("silently-constant" if zero else "silently-wrong", dict(max_rel_err=O.maxrel(M, J)))
                        else:
                            stats["correct_" + mode] += 1
                        if verdict:
                            feats = dict(namespace=nsname, name=name, template_len=len(t), x_pos=pos, shape_rank=len(shape),
                                         template="|".join(str(a) for a in t))
                            vios.append(violation(PROP, "scan", name, mode, verdict[0], feats, dict(item=list(item), template=list(t), shape=list(shape)),
                                                  dict(expr=expr, shape=list(shape)), verdict[1], "an exception or the numerical Jacobian",
                                                  "import autograd, autograd.numpy as np  # X of shape %r, C constant of the same shape: %s" % (shape, expr)))
                    if len(samples) < 1:
                        samples.append(dict(expr=expr, x_shape=list(shape), numpy_value_varies=True,
                                            reverse="raised" if stats["raised_rev"] else "jacobian matches", trusted_oracle=J is not None))
    return stats, vios[:40], samples


def _attr_call(x, name, args, copy):
    if copy:
        x = onp.array(x, copy=True)
    a = getattr(x, name)
    return a(*args) if callable(a) else (a if not args else (_ for _ in ()).throw(TypeError("not callable")))


def _autograd_jacobian(ag, f, x, mode):
    from autograd.core import vspace
    got = {}
    if mode == "rev":
        vjp, val = ag.make_vjp(f)(x)
        if _has_box(val):
            raise TypeError("tracer escaped")        # loud enough: garbage object result (counted as raised; C06's subject)
        vs = vspace(val)
        rows = {}
        for b in vs.standard_basis():
            k = int(onp.argmax(onp.abs(O.realify(b))))
            rows[k] = O.realify(vjp(b))
        m, n = O.realify(val).size, O.realify(x).size
        M = onp.zeros((m, n))
        for k, r in rows.items():
            if r.size != n:
                return onp.zeros((m, r.size))
            M[k] = r
        indep = getattr(vjp, "__closure__", None)
        return (O.signs(val)[:, None] * M)          # real X: C_in = 1
    jvp = ag.make_jvp(f)(x)
    cols = []
    val = None
    for b in vspace(x).standard_basis():
        val, t = jvp(b)
        cols.append(O.realify(t))
    m = O.realify(val).size
    if any(c.size != m for c in cols):
        return onp.zeros((max(c.size for c in cols), len(cols)))
    return onp.array(cols).T.reshape(m, len(cols))


def _has_box(v):
    from autograd.tracer import isbox
    if isinstance(v, (tuple, list)):
        return any(_has_box(x) for x in v)
    if isinstance(v, onp.ndarray) and v.dtype == object:
        return any(_has_box(x) for x in v.ravel().tolist())
    return isbox(v)


# ------------------------------------------------------------------ crash-contained execution

def _child(conn, chunk, maxlen, seed, start, scratch):
    # file-writing functions of the wrapped namespace (save, savetxt, tofile ...) land in a private directory that the parent removes
    os.chdir(scratch)
    lib()
    for i in range(start, len(chunk)):
        conn.send(("start", i))
        try:
            res = scan_item(chunk[i], maxlen, seed)
        except BaseException as e:
            res = ("error", "%s: %s" % (type(e).__name__, str(e)[:200]))
        conn.send(("done", i, res))
    conn.send(("end",))
    conn.close()


def run_chunks(chunks, maxlen, seed, ncpu, per_item_timeout):
    ctx = multiprocessing.get_context("fork")
    results = {}
    skipped = []
    pending = [(ci, 0) for ci in range(len(chunks))]
    active = {}
    while pending or active:
        while pending and len(active) < ncpu:
            ci, start = pending.pop(0)
            pc, cc = ctx.Pipe(duplex=False)
            scratch = tempfile.mkdtemp(prefix="c15_")
            p = ctx.Process(target=_child, args=(cc, chunks[ci], maxlen, seed, start, scratch))
            p.start()
            cc.close()
            active[ci] = dict(p=p, conn=pc, cur=start, t=time.time(), scratch=scratch)
        for ci, st in list(active.items()):
            finished = False
            try:
                while st["conn"].poll(0.01):
                    msg = st["conn"].recv()
                    if msg[0] == "start":
                        st["cur"], st["t"] = msg[1], time.time()
                    elif msg[0] == "done":
                        results[(ci, msg[1])] = msg[2]
                        st["cur"], st["t"] = msg[1] + 1, time.time()
                    else:
                        finished = True
            except (EOFError, OSError):
                pass
            dead = not st["p"].is_alive()
            hung = time.time() - st["t"] > per_item_timeout
            if finished or dead or hung:
                if hung and not finished:
                    st["p"].kill()
                st["p"].join(1)
                shutil.rmtree(st["scratch"], ignore_errors=True)
                del active[ci]
                if not finished and st["cur"] < len(chunks[ci]) and (ci, st["cur"]) not in results:
                    skipped.append((chunks[ci][st["cur"]], "numpy-timeout" if hung else "numpy-crash"))
                    if st["cur"] + 1 < len(chunks[ci]):
                        pending.append((ci, st["cur"] + 1))
        time.sleep(0.005)
    return results, skipped


# ------------------------------------------------------------------ declared unsupported options

def option_cases():
    L = lib()
    ag, np = L["ag"], L["np"]
    a2 = onp.array([[1.0, 0.5], [0.3, 2.0]])
    a3 = onp.array([0.4, 1.2, -0.7])
    a23 = onp.arange(6.0).reshape(2, 3) + 0.5
    g = lambda f, x: ag.grad(lambda y: np.sum(f(y)))(x)
    j = lambda f, x: ag.make_jvp(f)(x)(onp.ones(onp.shape(x)))
    both = lambda f, x: [("rev", lambda: g(f, x)), ("fwd", lambda: j(f, x))]
    C = []

    def add(name, f, x, modes=("rev", "fwd")):
        for m, th in both(f, x):
            if m in modes:
                C.append((name, m, th))

    add("matrix norm ord=1", lambda y: np.linalg.norm(y, 1), a2)
    add("matrix norm ord=2", lambda y: np.linalg.norm(y, 2), a2)
    add("matrix norm ord=-1 with axis pair", lambda y: np.linalg.norm(y, -1, (0, 1)), a2)
    add("vector norm ord=1", lambda y: np.linalg.norm(y, 1), a3)
    add("vector norm ord=0.5", lambda y: np.linalg.norm(y, 0.5), a3)
    add("vector norm ord=0", lambda y: np.linalg.norm(y, 0), a3)
    add("vector norm ord=-1", lambda y: np.linalg.norm(y, -1), a3)
    add("svd full_matrices=True", lambda y: np.linalg.svd(y)[0], a23, ("rev",))
    add("rollaxis negative axis", lambda y: np.rollaxis(y, -1), a23, ("rev",))
    add("rollaxis negative start", lambda y: np.rollaxis(y, 1, -1), a23, ("rev",))
    add("sort of a 2-D array", lambda y: np.sort(y), a23, ("rev",))
    add("partition of a 2-D array", lambda y: np.partition(y, 1), a23, ("rev",))
    add("pad mode='edge'", lambda y: np.pad(y, 1, "edge"), a3, ("rev",))
    add("pad mode='reflect'", lambda y: np.pad(y, 1, mode="reflect"), a3, ("rev",))
    add("gradient with spacing argument", lambda y: np.gradient(y, 2.0), onp.arange(6.0) ** 2, ("rev",))
    add("gradient with edge_order", lambda y: np.gradient(y, edge_order=2), onp.arange(6.0) ** 2, ("rev",))
    add("einsum interleaved without output sublist", lambda y: np.einsum(y, [0, 1], a23, [0, 1]), a23, ("rev",))
    add("rfft of odd length", lambda y: np.real(np.fft.rfft(y)), a3, ("rev",))
    add("irfft to odd length", lambda y: np.fft.irfft(y, 3), a3 + 0j, ("rev",))
    add("fft2 with repeated axes", lambda y: np.real(np.fft.fft2(y, axes=(0, 0))), a2, ("rev",))
    add("fftn with repeated axes and s", lambda y: np.real(np.fft.fftn(y, s=(2, 2), axes=(1, 1))), a2, ("rev",))
    add("ifft2 with repeated axes", lambda y: np.real(np.fft.ifft2(y, axes=(-1, -1))), a2, ("rev",))
    add("make_diagonal with unsupported axes", lambda y: np.make_diagonal(y, 0, 0, 1), a3)
    add("make_diagonal with offset", lambda y: np.make_diagonal(y, 1, -1, -2), a3)
    add("atleast_2d with two arguments", lambda y: np.atleast_2d(y, y)[0], a3)
    add("forward mode w.r.t. two arguments of clip, only one of which has a JVP rule", lambda y: np.clip(a3 * y, -y, y), onp.array(0.8), ("fwd",))
    add("reverse mode w.r.t. the bounds of clip (no rule)", lambda y: np.clip(a3, -y, y), onp.array(0.8), ("rev",))
    add("rfft with an odd transform length along axis 0 of a (5, 4) array", lambda y: np.real(np.fft.rfft(y, axis=0)), onp.arange(20.0).reshape(5, 4) ** 0.5, ("rev",))
    add("rfft with a positional odd n", lambda y: np.real(np.fft.rfft(y, 5)), onp.arange(6.0) ** 0.5, ("rev",))
    add("function without a rule (cbrt)", lambda y: np.cbrt(y), a3)
    add("function without a rule (cumprod)", lambda y: np.cumprod(y), a3)
    add("function without a rule (heaviside)", lambda y: np.interp(y, a3, a3), a3)
    add("method without a rule (ptp)", lambda y: y.ptp() if hasattr(y, "ptp") else np.ptp(y), a3)
    add("method without a rule (cumprod)", lambda y: y.cumprod(), a3)

    def assign(y):
        y[0] = 1.0
        return y
    add("item assignment into a traced array", assign, a3.copy())

    def assign_slice(y):
        z = y * 1.0
        z[1:] = 0.0
        return z
    add("slice assignment into a traced intermediate", assign_slice, a3.copy())
    C.append(("grad of a vector-valued function", "rev", lambda: ag.grad(lambda y: y * 2.0)(a3)))
    C.append(("grad of a complex-valued function", "rev", lambda: ag.grad(lambda y: y * 1j)(1.0)))
    C.append(("value_and_grad of a matrix-valued function", "rev", lambda: ag.value_and_grad(lambda y: y)(a2)))
    C.append(("elementwise_grad of a complex-valued function", "rev", lambda: ag.elementwise_grad(lambda y: y * 1j)(a3)))
    C.append(("grad w.r.t. a Python int", "rev", lambda: ag.grad(lambda y: y * 1.0)(2)))
    C.append(("grad w.r.t. None", "rev", lambda: ag.grad(lambda y: 1.0)(None)))
    C.append(("grad w.r.t. a string", "rev", lambda: ag.grad(lambda y: 1.0)("s")))
    C.append(("user primitive without any rule", "rev", lambda: ag.grad(ag.extend.primitive(lambda y: y * 2.0))(1.0)))
    C.append(("user primitive without any rule (forward)", "fwd", lambda: ag.make_jvp(ag.extend.primitive(lambda y: y * 2.0))(1.0)(1.0)))
    return C


def keyword_cases():
    """Keyword options that a rule may not know: each call must either raise or give the derivative of what NumPy computes WITH the option
    (expected value: numerical derivative of the plain NumPy call)."""
    L = lib()
    ag, np = L["ag"], L["np"]
    a3 = onp.array([0.4, 1.2, -0.7, 2.3])
    a23 = onp.arange(6.0).reshape(2, 3) * 0.7 - 1.1
    m3 = onp.array([True, False, True, True])
    m23 = onp.array([[True, False, True], [False, True, True]])
    C = []

    def add(name, src, x, extra=None):
        ns_a = dict(np=np, onp=onp, m3=m3, m23=m23, **(extra or {}))
        ns_n = dict(np=onp, onp=onp, m3=m3, m23=m23, **(extra or {}))
        f_a = eval("lambda x: " + src, ns_a)
        f_n = eval("lambda x: " + src, ns_n)
        C.append((name, src, f_a, f_n, x))
    for red in ("sum", "mean", "prod", "max", "min", "var", "std"):
        add("%s where=" % red, "np.%s(x, where=m3%s)" % (red, ", initial=0.0" if red in ("max", "min") else ""), a3)
        add("%s where= axis" % red, "np.%s(x, axis=0, where=m23%s)" % (red, ", initial=0.0" if red in ("max", "min") else ""), a23)
    add("sum initial=", "np.sum(x, initial=2.5)", a3)
    add("prod initial=", "np.prod(x, initial=2.5)", a3)
    add("max initial=", "np.max(x, initial=1.0)", a3)
    add("method sum where=", "x.sum(where=m3)", a3)
    add("method mean where=", "x.mean(where=m3)", a3)
    for spell in ("np.clip(x, max=1.0)", "np.clip(x, min=0.0)", "np.clip(x, min=0.0, max=1.0)", "x.clip(max=1.0)", "x.clip(min=0.0, max=1.0)", "np.clip(x, None, 1.0)",
                  "np.clip(x, 0.0, None)", "np.clip(x, a_min=0.0, a_max=1.0)", "np.clip(x, a_max=1.0, a_min=None)", "x.clip(0.0)"):
        add("clip spelling", spell, a3)
    add("mean dtype=", "np.mean(x, dtype='float32') * 1.0", a3)
    add("cumsum dtype=", "np.cumsum(x, dtype='float64')", a3)
    add("std ddof=2", "np.std(x, ddof=2)", a3)
    add("var ddof=1 keepdims", "np.var(x, ddof=1, keepdims=True)", a23)
    add("repeat with array repeats", "np.repeat(x, onp.array([1, 2, 0, 1]))", a3)
    add("tile with 0-d reps", "np.tile(x, onp.array(2))", a3)
    add("concatenate of one array with axis=None", "np.concatenate([x], axis=None)", a23)
    add("concatenate of two arrays with axis=None", "np.concatenate([x, x * 2.0], axis=None)", a23)
    add("ravel order=F", "np.ravel(x, order='F')", a23)
    add("reshape order=F", "np.reshape(x, (3, 2), order='F')", a23)
    add("flatten order=F", "x.flatten(order='F')", a23)
    add("sort descending via kind", "np.sort(x, kind='stable')", a3)
    add("diff with prepend", "np.diff(x, prepend=0.0)", a3)
    add("trace with offset and dtype", "np.trace(x, offset=1, dtype='float64')", a23)
    add("squeeze with axis tuple", "np.squeeze(x[None, :, None], axis=(0, 2))", a3)
    add("expand_dims with a tuple", "np.expand_dims(x, (0, 2))", a3)
    add("moveaxis with lists", "np.moveaxis(x[None], [0, 1], [1, 0])", a23)
    add("roll with tuple shifts", "np.roll(x, (1, 2), axis=(0, 1))", a23)
    add("flip with a tuple", "np.flip(x, (0, 1))", a23)
    add("rot90 k=3 axes", "np.rot90(x, 3, (1, 0))", a23)
    add("pad with per-axis widths", "np.pad(x, ((1, 0), (0, 2)))", a23)
    add("split with unsorted indices", "np.concatenate(np.split(x, [3, 1]))", a3)
    add("array_split uneven", "np.concatenate(np.array_split(x, 3))", a3)
    add("einsum optimize=", "np.einsum('ij,kj->ik', x, x, optimize=True)", a23)
    add("tensordot axes=0", "np.tensordot(x, x, 0)", a3)
    add("take with negative and repeated indices", "np.take(x, [0, -1, 0])", a3)
    # conversions that may be short-cut as "nothing to do": the result must stay a function of x
    w3 = onp.array([0.5, -1.5, 2.0, 0.25])
    for spell in ("x.astype(float)", "x.astype('float64', copy=False)", "x.astype(x.dtype, copy=False)", "x.astype(x.dtype)", "x.astype(onp.float64, order='C')",
                  "x.astype(float, casting='safe', copy=True)", "np.asarray(x, dtype=float)", "np.asarray(x, dtype=x.dtype)", "np.array(x, dtype='float64', copy=True)",
                  "np.asarray(x)", "np.ascontiguousarray(x)" if hasattr(np, "ascontiguousarray") else "np.asarray(x)", "np.copy(x)", "x.copy()", "x.view()" if False else "x + 0",
                  "x.reshape(x.shape)", "x.reshape(-1)", "np.reshape(x, x.shape)", "x.squeeze()", "x.ravel()", "x.T", "x.real", "np.real(x)", "x.conj()", "np.conjugate(x)",
                  "np.real_if_close(x)", "np.atleast_1d(x)", "np.broadcast_to(x, x.shape)", "x[...]", "x[:]", "x[()]", "+x", "np.positive(x)" if hasattr(np, "positive") else "+x"):
        add("identity-like conversion", "np.sin(%s) * w3 + x ** 2" % spell, a3, dict(w3=w3))
    # scalar-type constructors of the inexact kinds called on a differentiated scalar: a loud failure or the identity's derivative, never a constant
    x0 = onp.array(0.7)
    for tname in sorted(n_ for n_ in dir(onp) if isinstance(getattr(onp, n_), type) and issubclass(getattr(onp, n_), onp.inexact) and hasattr(np, n_)):
        try:
            getattr(onp, tname)(0.7)
        except Exception:
            continue                                   # abstract scalar types
        add("scalar type constructor", "np.real(np.%s(x)) * np.sin(x) + x ** 2" % tname, x0)
    for tname in ("float", "complex"):
        add("builtin scalar conversion", "np.real(%s(x)) * np.sin(x) + x ** 2" % tname, x0)
    return C


class _ShapeMismatch(Exception):
    pass


def _keyword_results(C):
    """[(name, src, mode, verdict, detail)] ; verdict in {raised, correct, undecided, WRONG}."""
    from ..oracles import numjac, Untrusted
    L = lib()
    ag = L["ag"]
    out = []
    with warnings.catch_warnings():
        warnings.simplefilter("ignore")
        for name, src, f_a, f_n, x in C:
            try:
                with onp.errstate(all="ignore"):
                    y0 = onp.asarray(f_n(x), dtype=float)
                    Jn, _ = numjac(lambda xx: onp.asarray(f_n(xx), dtype=float), x)
            except Untrusted:
                out.append((name, src, "-", "undecided", "numerical Jacobian not trusted"))
                continue
            except Exception as e:
                out.append((name, src, "-", "undecided", "NumPy rejects: %s" % type(e).__name__))
                continue
            m, n = y0.size, x.size
            for mode in ("rev", "fwd"):
                try:
                    if mode == "rev":
                        vjp, val = ag.make_vjp(f_a)(x)
                        val = onp.asarray(val, dtype=float)
                        J = onp.zeros((m, n))
                        for k in range(m):
                            b = onp.zeros(val.shape)
                            b.reshape(-1)[k] = 1.0
                            gk = vjp(b if val.shape else 1.0)
                            if onp.shape(gk) != x.shape:
                                raise _ShapeMismatch("gradient has shape %r, the argument %r" % (onp.shape(gk), x.shape))
                            J[k] = onp.asarray(gk, dtype=float).reshape(-1)
                    else:
                        jvp = ag.make_jvp(f_a)(x)
                        J = onp.zeros((m, n))
                        for j in range(n):
                            t = onp.zeros(x.shape)
                            t.reshape(-1)[j] = 1.0
                            val, tv = jvp(t)
                            if onp.shape(tv) != y0.shape:
                                raise _ShapeMismatch("tangent has shape %r, the output %r" % (onp.shape(tv), y0.shape))
                            J[:, j] = onp.asarray(tv, dtype=float).reshape(-1)
                    if onp.asarray(val, dtype=float).shape != y0.shape or not onp.allclose(onp.asarray(val, dtype=float), y0, rtol=1e-6, atol=1e-9, equal_nan=True):
                        out.append((name, src, mode, "WRONG", "primal differs from NumPy"))
                    elif J.shape == Jn.shape and onp.allclose(J, Jn, rtol=1e-6, atol=1e-7):
                        out.append((name, src, mode, "correct", None))
                    else:
                        out.append((name, src, mode, "WRONG", "autograd %s vs numerical %s" % (onp.round(J, 5).tolist(), onp.round(Jn, 5).tolist())))
                except _ShapeMismatch as e:
                    out.append((name, src, mode, "WRONG", str(e)))
                except Exception as e:
                    out.append((name, src, mode, "raised", type(e).__name__))
    return out


def run(ctx):
    import autograd.extend  # noqa
    rep = Report("exploration")
    lib()
    maxlen = 3 if ctx.quick else 4
    its = items(ctx.quick)
    nchunks = max(ctx.ncpu * 4, 1)
    chunks = [its[i::nchunks] for i in range(nchunks)]
    chunks = [c for c in chunks if c]
    results, skipped = run_chunks(chunks, maxlen, ctx.seed, ctx.ncpu, per_item_timeout=120 if ctx.quick else 600)
    tot = dict(calls=0, accepted=0, varying=0, raised_rev=0, raised_fwd=0, correct_rev=0, correct_fwd=0, undecided=0, nonfloat=0)
    errors = []
    scanned = 0
    for (ci, i), res in sorted(results.items()):
        if res[0] == "error":
            errors.append((chunks[ci][i], res[1]))
            continue
        stats, vios, samples = res
        scanned += 1
        for k in tot:
            tot[k] += stats[k]
        rep.violations += vios
        if samples and len(rep.cov["samples"]) < 8:
            rep.cov["samples"].append(samples[0])
    # ---- declared unsupported options
    nopt = 0
    with warnings.catch_warnings():
        warnings.simplefilter("ignore")
        for name, mode, thunk in option_cases():
            nopt += 1
            try:
                r = thunk()
                rep.violations.append(violation(PROP, "options", name.split(" ")[0], mode, "unsupported-request-not-rejected", dict(case=name), dict(case=name, mode=mode),
                                                dict(case=name), repr(r)[:200], "an exception at the point of use", "# " + name))
            except Exception:
                pass
    kw = _keyword_results(keyword_cases())
    kwtot = {}
    for name, src, mode, verdict, detail in kw:
        kwtot[verdict] = kwtot.get(verdict, 0) + 1
        if verdict == "WRONG":
            rep.violations.append(violation(PROP, "keywords", src.split("(")[0].replace("np.", ""), mode, "silently-wrong-with-option", dict(case=name, call=src, case_id=name.replace(" ", "_")),
                                            dict(keyword_case=src, mode=mode), dict(call=src), detail[:300], "an exception, or the derivative of NumPy's result with this option",
                                            "import autograd, autograd.numpy as np, numpy as onp  # f = lambda x: %s" % src))
    nopt += len(kw)
    rep.cov["keyword_cases"] = kwtot
    if len(rep.cov["samples"]) < 10:
        rep.cov["samples"].append(dict(option_case="matrix norm ord=1 must raise", outcome="raised"))
    rep.add(evaluations=tot["calls"] + nopt, states=tot["accepted"], transitions=tot["calls"], traces_validated_against_impl=tot["varying"],
            distinct_nontrivial=tot["varying"] + nopt, callables_scanned=scanned, callables_listed=len(its), templates=len(templates(maxlen)),
            shapes=len(SHAPES), totals=tot, option_cases=nopt, numpy_crash_or_timeout=[(list(i), why) for i, why in skipped][:20],
            scan_errors=[(list(i), e) for i, e in errors][:10], exhaustive=not skipped and not errors,
            rule="every exported callable x every template of length <= %d over atoms X,C,0,1,2,-1,2.5,(0,1) with exactly one X x %d shapes; "
                 "non-trivial = NumPy accepts the call, returns finite floats, and the value varies with X along two fixed directions" % (maxlen, len(SHAPES)),
            exclusions="side-effecting / in-place / I-O / random-state / integer-only callables matching mc/props/c15.py:EXCLUDE and BOX_ATTR_EXCLUDE")
    if errors:
        raise RuntimeError("scan errors: %r" % (errors[:3],))
    rep.assumptions = ["templates of length <= %d" % maxlen, "oracle: trust-tested numerical Jacobian of the NumPy callable; tolerance 1e-6",
                       "a differentiated array passed inside a list/tuple/kwarg is documented as opaque and not scanned"]
    return rep


def replay(ctx, v):
    c = v["choices"]
    if "item" in c:
        lib()
        stats, vios, _ = scan_item(tuple(c["item"]), len(c["template"]), ctx.seed)
        for x in vios:
            if x["choices"]["template"] == c["template"] and x["choices"]["shape"] == c["shape"] and x["mode"] == v["mode"]:
                return x
        return None
    lib()
    import autograd.extend  # noqa
    if "keyword_case" in c:
        for name, src, mode, verdict, detail in _keyword_results([k for k in keyword_cases() if k[1] == c["keyword_case"]]):
            if mode == c["mode"] and verdict == "WRONG":
                return v
        return None
    for name, mode, thunk in option_cases():
        if name == c["case"] and mode == c["mode"]:
            with warnings.catch_warnings():
                warnings.simplefilter("ignore")
                try:
                    thunk()
                    return v
                except Exception:
                    return None
    return None
