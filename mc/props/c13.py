"""C13 - vector-space operations obey the axioms for every differentiable value type.

Value alphabet: Python/NumPy scalars, arrays over shapes x dtypes (incl. 0-d and empty), nested containers.
For each value: every axiom as an identity on the whole standard basis plus two fixed generic vectors and a scalar
alphabet; vspace equality on all pairs of the alphabet; mut_add(None, x) freshness.
"""
import itertools

import numpy as onp

from ..findings import violation
from ..par import replay_generic, run_harnesses
from ..runner import Report

PROP = "C13"
SCALARS = [0.0, 1.0, -1.0, 2.5, 1e-3]
_L = {}


def lib():
    if not _L:
        import autograd.numpy  # noqa  (registers array spaces)
        import autograd.builtins  # noqa
        from autograd.extend import vspace
        _L["vspace"] = vspace
    return _L


def leaf_values(quick):
    vals = []
    shapes = [(), (1,), (2,), (2, 3), (0,), (2, 0), (1, 1)]
    fdts = ["float16", "float32", "float64", "longdouble"]
    cdts = ["complex64", "complex128", "clongdouble"]
    for sh in shapes:
        for dt in fdts + cdts:
            n = int(onp.prod(sh))
            a = (onp.arange(n) * 0.37 + 0.6).reshape(sh)
            if dt in cdts:
                a = a + 1j * (onp.arange(n) * 0.21 - 0.4).reshape(sh)
            vals.append(("arr%s:%s" % (sh, dt), onp.array(a, dtype=dt)))
    vals += [("float", 1.25), ("complex", 0.5 - 1.5j)]
    for dt in fdts + cdts:
        vals.append(("np." + dt, getattr(onp, dt)(0.75 if dt in fdts else 0.75 + 0.5j)))
    return vals


def container_values(quick):
    leaves = [("f", 1.5), ("a", onp.array([0.5, -1.0])), ("c", 2.0 - 1.0j)]
    level1 = []
    for k in (0, 1, 2):
        for combo in itertools.product(leaves, repeat=k):
            names = "".join(n for n, _ in combo)
            vals = [v for _, v in combo]
            level1.append(("tuple(%s)" % names, tuple(vals)))
            level1.append(("list(%s)" % names, list(vals)))
            level1.append(("dict(%s)" % names, {("k%d" % i): v for i, v in enumerate(vals)}))
    out = list(level1)
    inner = [c for c in level1 if c[0] in ("tuple()", "tuple(fa)", "list(a)", "dict(fc)", "dict()", "list(ca)")]
    for (n1, v1), (n2, v2) in itertools.product(inner + leaves[:2], repeat=2):
        if (n1, v1) in leaves[:2] and (n2, v2) in leaves[:2]:
            continue
        out.append(("tuple[%s,%s]" % (n1, n2), (v1, v2)))
        if not quick:
            out.append(("list[%s,%s]" % (n1, n2), [v1, v2]))
        out.append(("dict[%s,%s]" % (n1, n2), {"p": v1, "q": v2}))
    return out


def all_values(quick):
    return leaf_values(quick) + container_values(quick)


# ------------------------------------------------------------------ helpers over nested values

def tmap(f, *vs):
    v = vs[0]
    if isinstance(v, dict):
        return {k: tmap(f, *[x[k] for x in vs]) for k in v}
    if isinstance(v, (tuple, list)):
        return type(v)(tmap(f, *xs) for xs in zip(*vs))
    return f(*vs)


def tleaves(v):
    if isinstance(v, dict):
        return [l for x in v.values() for l in tleaves(x)]
    if isinstance(v, (tuple, list)):
        return [l for x in v for l in tleaves(x)]
    return [v]


def eps_of(v):
    e = 2.3e-16
    for l in tleaves(v):
        dt = onp.asarray(l).dtype
        if dt.kind in "fc":
            e = max(e, float(onp.finfo(dt).eps))
    return e


def close(a, b, tol):
    la, lb = tleaves(a), tleaves(b)
    if len(la) != len(lb) or _struct(a) != _struct(b):
        return False
    for x, y in zip(la, lb):
        x, y = onp.asarray(x), onp.asarray(y)
        if x.shape != y.shape:
            return False
        if x.size and not onp.all(onp.abs(x.astype(complex) - y.astype(complex)) <= tol * (1 + onp.abs(y.astype(complex)))):
            return False
    return True


def _struct(v):
    if isinstance(v, dict):
        return ("dict", tuple((k, _struct(x)) for k, x in v.items()))
    if isinstance(v, (tuple, list)):
        return (type(v).__name__, tuple(_struct(x) for x in v))
    a = onp.asarray(v)
    return ("leaf", a.shape)


def generic(v, k):
    cnt = [0]

    def g(l):
        a = onp.asarray(l)
        cnt[0] += 1
        n = a.size
        r = (onp.modf((onp.arange(n) + 1 + 3 * k + cnt[0]) * 0.6180339887)[0] - 0.4).reshape(a.shape) * 2
        if a.dtype.kind == "c":
            r = r + 1j * (onp.modf((onp.arange(n) + 2 + 5 * k + cnt[0]) * 0.7548776662)[0] - 0.6).reshape(a.shape)
        r = onp.array(r, dtype=a.dtype)
        if isinstance(l, onp.ndarray):
            return r
        if isinstance(l, onp.generic):
            return type(l)(r)
        return complex(r) if isinstance(l, complex) else float(r)

    return tmap(g, v)


def copyv(v):
    return tmap(lambda l: l.copy() if isinstance(l, onp.ndarray) else l, v)


def expected_equal_spaces(a, b):
    """Structure / shape / dtype equality, the documented meaning of vspace equality."""
    def d(v):
        if isinstance(v, dict):
            return ("dict", tuple((k, d(x)) for k, x in v.items()))
        if isinstance(v, (tuple, list)):
            return (type(v).__name__, tuple(d(x) for x in v))
        x = onp.asarray(v)
        return ("leaf", x.shape, str(x.dtype))
    return d(a) == d(b)


AXIOMS = ["zeros-identity", "add-commutative", "add-associative", "add-equals-mut_add", "scalar-distributes", "inner-symmetric",
          "inner-bilinear", "inner-positive-orthonormal", "covector-involution", "basis-complete", "size", "mut_add-none-fresh",
          "zeros-ones-structure", "dict-key-order", "inner-reference"]


def reorder(v):
    """The same value with every dict's insertion order reversed (an equal dict as far as Python is concerned)."""
    if isinstance(v, dict):
        return {k: reorder(v[k]) for k in reversed(list(v))}
    if isinstance(v, (tuple, list)):
        return type(v)(reorder(x) for x in v)
    return v


def keyed(v):
    if isinstance(v, dict):
        return {k: keyed(v[k]) for k in sorted(v)}
    if isinstance(v, (tuple, list)):
        return type(v)(keyed(x) for x in v)
    return v


def axioms_factory(quick, seed):
    vspace = lib()["vspace"]
    values = all_values(quick)

    def h(ch):
        name, v = ch.choose("value", values)
        ax = ch.choose("axiom", AXIOMS)
        vs = vspace(v)
        tol = 64 * eps_of(v)
        basis = list(vs.standard_basis())
        vecs = basis + [generic(v, 1 + seed % 5), generic(v, 2), v]
        bad = None
        nchecks = 0

        def fail(msg, got=None, want=None):
            nonlocal bad
            if bad is None:
                bad = (msg, repr(got)[:200], repr(want)[:200])

        try:
            if ax == "zeros-identity":
                z = vs.zeros()
                for x in vecs:
                    nchecks += 1
                    if not close(vs.add(x, z), x, 0) or not close(vs.add(z, x), x, 0):
                        fail("x + 0 != x", vs.add(x, z), x)
            elif ax == "add-commutative":
                for x, y in itertools.product(vecs[-3:] + basis[:3], repeat=2):
                    nchecks += 1
                    if not close(vs.add(x, y), vs.add(y, x), 0):
                        fail("x + y != y + x", vs.add(x, y), vs.add(y, x))
            elif ax == "add-associative":
                for x, y, z in itertools.product(vecs[-3:], repeat=3):
                    nchecks += 1
                    if not close(vs.add(vs.add(x, y), z), vs.add(x, vs.add(y, z)), tol):
                        fail("(x+y)+z != x+(y+z)", vs.add(vs.add(x, y), z), vs.add(x, vs.add(y, z)))
            elif ax == "add-equals-mut_add":
                for x, y in itertools.product(vecs[-3:] + basis[:2], repeat=2):
                    nchecks += 1
                    want = vs.add(x, y)
                    xc, yc = copyv(x), copyv(y)
                    got = vs.mut_add(xc, yc)
                    if not close(got, want, 0):
                        fail("mut_add(copy(x), y) != add(x, y)", got, want)
                    if not close(yc, y, 0):
                        fail("mut_add modified its second argument", yc, y)
            elif ax == "scalar-distributes":
                for x, y in itertools.product(vecs[-3:], repeat=2):
                    for a, b in itertools.product(SCALARS, repeat=2):
                        nchecks += 1
                        l1 = vs.scalar_mul(vs.add(x, y), a)
                        r1 = vs.add(vs.scalar_mul(x, a), vs.scalar_mul(y, a))
                        l2 = vs.scalar_mul(x, a + b)
                        r2 = vs.add(vs.scalar_mul(x, a), vs.scalar_mul(x, b))
                        if not close(l1, r1, 8 * tol):
                            fail("a(x+y) != ax+ay", l1, r1)
                        if not close(l2, r2, 8 * tol):
                            fail("(a+b)x != ax+bx", l2, r2)
                        if a == 1.0 and not close(vs.scalar_mul(x, 1.0), x, 0):
                            fail("1*x != x", vs.scalar_mul(x, 1.0), x)
            elif ax == "inner-symmetric":
                for x, y in itertools.product(vecs, repeat=2):
                    nchecks += 1
                    a, b = vs.inner_prod(x, y), vs.inner_prod(y, x)
                    if onp.iscomplexobj(a) or not abs(complex(a) - complex(b)) <= 8 * tol * (1 + abs(complex(b))):
                        fail("<x,y> != <y,x> or not real", a, b)
            elif ax == "inner-bilinear":
                for x, y, z in itertools.product(vecs[-3:], repeat=3):
                    for a in SCALARS:
                        nchecks += 1
                        l = vs.inner_prod(vs.add(vs.scalar_mul(x, a), y), z)
                        r = a * vs.inner_prod(x, z) + vs.inner_prod(y, z)
                        if not abs(l - r) <= 64 * tol * (1 + abs(r)):
                            fail("<ax+y,z> != a<x,z>+<y,z>", l, r)
            elif ax == "inner-positive-orthonormal":
                for i, bi in enumerate(basis):
                    for j, bj in enumerate(basis):
                        nchecks += 1
                        got = vs.inner_prod(bi, bj)
                        if not abs(got - (1.0 if i == j else 0.0)) <= tol:
                            fail("<b_%d,b_%d> not delta" % (i, j), got, float(i == j))
                for x in vecs[-3:]:
                    nchecks += 1
                    n2 = vs.inner_prod(x, x)
                    nonzero = any(onp.any(onp.asarray(l) != 0) for l in tleaves(x))
                    if (nonzero and not n2 > 0) or (not nonzero and n2 != 0):
                        fail("<x,x> not positive definite", n2, "> 0")
            elif ax == "inner-reference":
                # the inner product IS sum(re(conj(x) y)) over all leaves, evaluated in (at least) the leaves' own precision and range
                LD = onp.longdouble

                def ref(x, y):
                    tot, mag = LD(0), LD(0)
                    for a, b in zip(tleaves(x), tleaves(y)):
                        a, b = onp.asarray(a).reshape(-1), onp.asarray(b).reshape(-1)
                        for p, q in zip(a, b):
                            pr, pi, qr, qi = LD(onp.real(p)), LD(onp.imag(p)), LD(onp.real(q)), LD(onp.imag(q))
                            tot += pr * qr + pi * qi
                            mag += abs(pr * qr) + abs(pi * qi)
                    return tot, mag
                for x, y in itertools.product(vecs[-3:], repeat=2):
                    nchecks += 1
                    got = vs.inner_prod(x, y)
                    want, mag = ref(x, y)
                    if not abs(LD(got) - want) <= LD(tol) * mag:
                        fail("<x,y> differs from sum(re(conj(x) y)) beyond the space's own precision", got, want)
                # memory layout: the same vectors stored Fortran-ordered / as transposed views are the same vectors
                def relayout(u, how):
                    def one(l):
                        if isinstance(l, onp.ndarray) and l.ndim >= 2:
                            return onp.asfortranarray(l) if how == "F" else onp.ascontiguousarray(l.T).T
                        return l
                    return tmap(one, u)
                if any(isinstance(l, onp.ndarray) and l.ndim >= 2 and l.size > 1 for l in tleaves(v)):
                    for x, y in itertools.product(vecs[-3:], repeat=2):
                        for how in ("F", "T"):
                            nchecks += 1
                            want, mag = ref(x, y)
                            for got in (vs.inner_prod(x, relayout(y, how)), vs.inner_prod(relayout(x, how), y)):
                                if not abs(LD(got) - want) <= LD(tol) * mag:
                                    fail("<x,y> depends on the memory layout of an operand (%s)" % how, got, want)
                            if not close(vs.add(x, relayout(y, how)), vs.add(x, y), 0) or not close(vs.covector(relayout(y, how)), vs.covector(y), 0) \
                                    or not close(vs.scalar_mul(relayout(y, how), 1.5), vs.scalar_mul(y, 1.5), 0):
                                fail("add / covector / scalar_mul depend on the memory layout of an operand (%s)" % how)
                # range: entries whose squares are representable in the leaves' dtype but not in a narrower one
                dts = {onp.asarray(l).dtype for l in tleaves(v) if isinstance(l, (onp.ndarray, onp.generic))}
                if len(dts) == 1 and any(onp.asarray(l).size for l in tleaves(v)):
                    fi = onp.finfo(next(iter(dts)))
                    for e in (fi.minexp // 4, fi.maxexp // 4):
                        nchecks += 1
                        x = tmap(lambda l: (onp.ones_like(l) * onp.asarray(2.0, dtype=fi.dtype) ** e).astype(onp.asarray(l).dtype), v)
                        got, (want, _) = vs.inner_prod(x, x), ref(x, x)
                        if not (onp.isfinite(got) and got > 0 and abs(LD(got) - want) <= LD(tol) * want):
                            fail("<x,x> for entries 2**%d leaves the dtype's range" % e, got, want)
            elif ax == "covector-involution":
                for x in vecs:
                    nchecks += 1
                    if not close(vs.covector(vs.covector(x)), x, 0):
                        fail("covector(covector(x)) != x", vs.covector(vs.covector(x)), x)
                    if not (vspace(vs.covector(x)) == vs):
                        fail("covector leaves the space", vspace(vs.covector(x)), vs)
            elif ax == "basis-complete":
                for x in vecs[-3:]:
                    nchecks += 1
                    acc = vs.zeros()
                    for b in basis:
                        acc = vs.add(acc, vs.scalar_mul(b, vs.inner_prod(b, x)))
                    if not close(acc, x, 64 * tol):
                        fail("sum <b_i,x> b_i != x", acc, x)
                for b in basis:
                    if not (vspace(b) == vs):
                        fail("basis vector outside the space", vspace(b), vs)
            elif ax == "size":
                nchecks += 1
                want = sum((2 if onp.asarray(l).dtype.kind == "c" else 1) * onp.asarray(l).size for l in tleaves(v))
                if not (len(basis) == vs.size == want):
                    fail("len(basis), size, real dimension disagree", (len(basis), vs.size), want)
            elif ax == "mut_add-none-fresh":
                for x in vecs[-3:]:
                    nchecks += 1
                    got = vs.mut_add(None, x)
                    if not close(got, x, 0):
                        fail("mut_add(None, x) != x", got, x)
                    for a, b in zip(tleaves(got), tleaves(x)):
                        if isinstance(a, onp.ndarray) and isinstance(b, onp.ndarray) and b.size and onp.shares_memory(a, b):
                            fail("mut_add(None, x) shares memory with x")
            elif ax == "dict-key-order":
                # vectors are matched by KEY: an operand whose dicts were written in another order is the same vector
                for x, y in itertools.product(vecs[-3:], repeat=2):
                    nchecks += 1
                    yr = reorder(y)
                    if not close(keyed(vs.add(x, yr)), keyed(vs.add(x, y)), 0) or not close(keyed(vs.add(yr, x)), keyed(vs.add(y, x)), 0):
                        fail("add depends on dict insertion order", vs.add(x, yr), vs.add(x, y))
                    if not close(keyed(vs.mut_add(vs.mut_add(None, x), yr)), keyed(vs.add(x, y)), 0):
                        fail("mut_add depends on dict insertion order", vs.mut_add(vs.mut_add(None, x), yr), vs.add(x, y))
                    if abs(vs.inner_prod(x, yr) - vs.inner_prod(x, y)) > tol * (1 + abs(vs.inner_prod(x, y))):
                        fail("inner_prod depends on dict insertion order", vs.inner_prod(x, yr), vs.inner_prod(x, y))
                    if not close(keyed(vs.scalar_mul(yr, 1.5)), keyed(vs.scalar_mul(y, 1.5)), 0) or not close(keyed(vs.covector(yr)), keyed(vs.covector(y)), 0):
                        fail("scalar_mul / covector depend on dict insertion order", vs.scalar_mul(yr, 1.5), vs.scalar_mul(y, 1.5))
                    if not (vspace(yr) == vs):
                        fail("vspace of the reordered value differs", vspace(yr), vs)
            elif ax == "zeros-ones-structure":
                nchecks += 1
                for w in (vs.zeros(), vs.ones()):
                    if not (vspace(w) == vs):
                        fail("zeros()/ones() outside the space", vspace(w), vs)
                if any(onp.any(onp.asarray(l) != 0) for l in tleaves(vs.zeros())):
                    fail("zeros() not zero")
        except Exception as e:
            fail("raised %s: %s" % (type(e).__name__, str(e)[:120]))
        return name, ax, bad, nchecks, len(basis)

    def judge(ch, out):
        name, ax, bad, nchecks, nb = out
        v = None
        if bad:
            kind = name.split("(")[0].split("[")[0].split(":")[0]
            v = violation(PROP, "axioms", ax, "-", "axiom-violated", dict(axiom=ax, value_kind=kind, value=name), ch.choices,
                          ch.decoded(), bad, None, "from autograd.extend import vspace  # value %s, axiom %s: %s" % (name, ax, bad[0]))
        return dict(v=v, nontrivial=nb > 1, outcome=(ax, nb), counts={"identities": nchecks},
                    sample=dict(choices=list(ch.choices), value=name, axiom=ax, basis_size=nb, identities_checked=nchecks))

    return h, judge


def pairs_factory(quick, seed):
    vspace = lib()["vspace"]
    values = all_values(quick)
    # variants that must compare *unequal* although "similar"
    extra = [("arr(2,):float64-b", onp.array([9.0, 8.0])), ("arr(2, 1):float64", onp.zeros((2, 1))), ("tuple(fa)-b", (2.5, onp.array([0.1, 0.2]))),
             ("dict-otherkeys", {"k0": 1.5, "kX": onp.array([0.5, -1.0])})]
    allv = values + extra

    def h(ch):
        i = ch.choose("a", list(range(len(allv))))
        res = []
        na, a = allv[i]
        try:
            va = vspace(a)
        except Exception as e:
            return na, [("*", "raised %s" % type(e).__name__, None)]
        for nb, b in allv:
            got = (va == vspace(b))
            want = expected_equal_spaces(a, b)
            if bool(got) != want:
                res.append((nb, bool(got), want))
        return na, res

    def judge(ch, out):
        na, res = out
        v = None
        if res:
            v = violation(PROP, "pairs", "vspace-eq", "-", "equality-wrong", dict(value=na), ch.choices, ch.decoded(), res[:5], None,
                          "vspace(%s) compared with %s" % (na, [r[0] for r in res[:5]]))
        return dict(v=v, nontrivial=True, outcome=na, counts={"pairs": len(allv)},
                    sample=dict(choices=list(ch.choices), value=na, compared_with=len(allv), mismatches=len(res)))

    return h, judge


HARNESSES = {"axioms": axioms_factory, "pairs": pairs_factory}


def run(ctx):
    rep = Report("exploration")
    run_harnesses(ctx, rep, __name__, ["axioms", "pairs"], depth=1)
    rep.add(rule="leaf = (value of the type alphabet, axiom): the identity is checked on the whole standard basis, two generic "
                 "vectors and the value itself, with scalars %r; pairs harness: vspace equality of every ordered pair; "
                 "non-trivial = space of dimension > 1" % (SCALARS,),
            values=len(all_values(ctx.quick)))
    rep.assumptions = ["tolerances scale with the dtype's eps (exact where the identity is exact in floating point)",
                       "value alphabet: 7 shapes x 7 dtypes, Python/NumPy scalars, containers of depth <= 2"]
    return rep


def replay(ctx, v):
    return replay_generic(__name__, ctx, v)
