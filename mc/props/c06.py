"""C06 - value transparency: primal under differentiation identical to plain NumPy (catalogue walk)."""
from ..judges import harness_table, run_catalog
from ..par import replay_generic

PROP = "C06"
HARNESSES = harness_table(PROP, families=("U", "B", "R", "S", "K", "W", "L"))


def run(ctx):
    rep = run_catalog(ctx, __name__, HARNESSES)
    rep.add(rule="one leaf = one call configuration evaluated plainly through autograd.numpy, under make_vjp and under make_jvp; each primal must equal NumPy's result bit-for-bit (values, shape, dtype, structure), contain no tracer, and leave the inputs byte-identical",
            bound="quick: rank<=2 dims {1,2,3} + rank 3 dims {1,2}, 1 point; thorough: rank<=3 dims {1,2,3} + rank 4 dims {1,2}, 2 points")
    rep.assumptions = ['NumPy is the reference', 'finite alphabets']
    return rep


def replay(ctx, v):
    return replay_generic(__name__, ctx, v)
