"""C07 - derivatives of derivatives: three Hessian-vector-product routes agree, are symmetric and match a numerical
derivative of autograd's own gradient (catalogue walk at reduced shapes) + third order on nested terms (C08's symbolic terms)."""
import collections
import warnings

import numpy as onp

from .. import judges as J
from .. import oracles as O
from .. import walk as W
from ..catalog.base import Tier
from ..explore import Skip
from ..par import replay_generic, run_harnesses
from ..runner import Report

PROP = "C07"
TOL_ROUTES = 1e-9
TOL_NUM = 1e-6


def make_harness(spec_name, spec_fn, T, third=False, spec_fam=""):
    def h(ch):
        k = ch.choose("point", list(range(T.points)))
        case = spec_fn(ch, T.at(k))
        if case is None:
            raise Skip("spec declined")
        if not getattr(case, "value_oracle", True):
            raise Skip("reduced-precision output: no value oracle (finite differences of a float32-valued function are noise)")
        opts = [o for o in W.argnum_options(case) if o != "same" and len(o) <= 2]
        which = ch.choose("argnum", opts)
        A = W.ag()
        ag, anp = A["autograd"], A["anp"]
        f = case.fn()
        names = list(case.ops)
        vals = [case.ops[n] for n in names]
        if any(onp.iscomplexobj(vals[i]) for i in which):
            raise Skip("complex operand: C09's subject")
        cmode = "no"
        if len(which) == 1 and spec_fam in ("U", "R") and onp.size(vals[which[0]]) <= 2 and case.name != "real_if_close":   # (piecewise in the imaginary part)
            # the operand as a COMPLEX value built from a real vector v = [re, im] inside the differentiated function: second and third
            # derivatives of the realification, at a generic complex point and at a point lying exactly on the real axis
            cmode = ch.choose("complexified", ["no", "generic", "real-axis"])
        if cmode != "no":
            i = which[0]
            re0 = onp.asarray(vals[i], dtype=float)
            shp, nre = re0.shape, re0.size
            im0 = (O.fill(shp, 13, 0.2, 0.6, T.seed) if cmode == "generic" else onp.zeros(shp)) * onp.ones(shp)
            x = onp.concatenate([re0.reshape(-1), onp.asarray(im0, dtype=float).reshape(-1)])

            def call(np_, vv):
                zz = np_.reshape(vv[:nre], shp) + 1j * np_.reshape(vv[nre:], shp)
                args = list(vals)
                args[i] = zz
                out_ = f(np_, *args)
                return np_.concatenate([np_.reshape(np_.real(out_), (-1,)), np_.reshape(np_.imag(out_), (-1,))])
        elif len(which) == 1:
            i = which[0]
            x = onp.asarray(vals[i], dtype=float)

            def call(np_, xx):
                args = list(vals)
                args[i] = xx
                return f(np_, *args)
        else:
            # joint second derivative w.r.t. two operands: one flat vector z = [x.ravel(), y.ravel()] (mixed partials included)
            parts = [onp.asarray(vals[i], dtype=float) for i in which]
            sizes = [p_.size for p_ in parts]
            x = onp.concatenate([p_.ravel() for p_ in parts])

            def call(np_, zz):
                args = list(vals)
                off = 0
                for i_, p_, n_ in zip(which, parts, sizes):
                    piece = zz[off:off + n_]
                    args[i_] = np_.reshape(piece, p_.shape) if p_.shape else piece[0]
                    off += n_
                return f(np_, *args)

        with warnings.catch_warnings():
            warnings.simplefilter("ignore")
            with onp.errstate(all="ignore"):
                try:
                    out0 = call(W.NPX, x)
                except Exception:
                    raise Skip("NumPy rejects")
                if isinstance(out0, onp.ndarray) and onp.iscomplexobj(out0) and cmode == "no":
                    # complex-valued result of real operands (the FFT family): differentiate its realification [Re, Im] to second / third order
                    call_c = call

                    def call(np_, xx):
                        out_ = call_c(np_, xx)
                        return np_.concatenate([np_.reshape(np_.real(out_), (-1,)), np_.reshape(np_.imag(out_), (-1,))])
                    out0 = call(W.NPX, x)
                    cmode = "output-realified"
                if not isinstance(out0, (onp.ndarray, float, onp.floating)) or onp.iscomplexobj(out0):
                    raise Skip("container/complex output")
                if not onp.all(onp.isfinite(onp.asarray(out0, dtype=float))):
                    raise Skip("NumPy's own value is not finite here: not a regular point")
                m = int(onp.size(out0))
                Wt = O.fill(onp.shape(out0), 3, 0.5, 1.5, T.seed)
                phi = lambda xx: anp.sum(Wt * call(anp, xx))
                res = dict(n=x.size, cmode=cmode)
                n = x.size
                basis = [onp.eye(n)[j].reshape(x.shape) for j in range(n)]
                gfun = ag.grad(phi)
                try:
                    g0 = onp.asarray(gfun(x), dtype=float)
                    res["grad_shape_ok"] = g0.shape == x.shape
                except Exception as e:
                    res["first_order_exc"] = "%s: %s" % (type(e).__name__, str(e)[:100])
                    return case, which, res
                if not res["grad_shape_ok"]:
                    return case, which, res
                for route in ("RR", "FR", "RF"):
                    try:
                        cols = []
                        for v in basis:
                            if route == "RR":
                                hv = ag.make_vjp(gfun)(x)[0](v)
                            elif route == "FR":
                                hv = ag.make_jvp(gfun)(x)(v)[1]
                            else:
                                hv = ag.grad(lambda xx: ag.make_jvp(phi)(xx)(v)[1])(x)
                            cols.append(onp.asarray(hv, dtype=float).reshape(-1))
                        res[route] = onp.array(cols).T if cols else onp.zeros((0, 0))
                    except Exception as e:
                        res[route + "_exc"] = "%s: %s" % (type(e).__name__, str(e)[:100])
                # zero-residual least squares: phi0(x) = 1/2 |f(x) - f(x0)|^2 has gradient 0 at x0 and Hessian J^T J (Gauss-Newton).
                # Every cotangent entering f's rules is *zero-valued but traced* here - the situation that value-dependent fast
                # paths ("if any(g): ...") get wrong at second order only.
                try:
                    c0 = onp.asarray(out0, dtype=float)
                    phi0 = lambda xx: 0.5 * anp.sum((call(anp, xx) - c0) ** 2)
                    g0fun = ag.grad(phi0)
                    Jn, _ = O.numjac(lambda xx: onp.asarray(call(W.NPX, xx), dtype=float), x)
                    res["gn_want"] = Jn.T @ Jn
                    for route in ("RR", "FR"):
                        try:
                            cols = []
                            for v in basis:
                                hv = ag.make_vjp(g0fun)(x)[0](v) if route == "RR" else ag.make_jvp(g0fun)(x)(v)[1]
                                cols.append(onp.asarray(hv, dtype=float).reshape(-1))
                            res["gn_" + route] = onp.array(cols).T if cols else onp.zeros((0, 0))
                        except Exception as e:
                            res["gn_exc_" + route] = "%s: %s" % (type(e).__name__, str(e)[:100])
                except O.Untrusted:
                    pass
                except Exception as e:
                    res["gn_exc"] = "%s: %s" % (type(e).__name__, str(e)[:100])
                # third order along one fixed direction u: psi(t) = phi(x + t u); the third derivative of psi at 0 by four nestings of
                # the scalar operators, against the numerical derivative of autograd's own (second-order, judged above) psi-double-prime
                if third and n:
                    u = O.fill(x.shape, 11, 0.5, 1.5, T.seed)
                    psi = lambda t: phi(x + t * u)
                    g_, d_ = ag.grad, ag.deriv
                    r3 = {}
                    for name3, op3 in (("RRR", lambda: g_(g_(g_(psi)))), ("FFF", lambda: d_(d_(d_(psi)))), ("RFR", lambda: g_(d_(g_(psi)))),
                                       ("FRF", lambda: d_(g_(d_(psi))))):
                        try:
                            r3[name3] = float(op3()(0.0))
                        except Exception as e:
                            res["third_exc_" + name3] = "%s: %s" % (type(e).__name__, str(e)[:100])
                    res["third"] = r3
                    try:
                        sec = g_(g_(psi))
                        T3, _ = O.numjac(lambda tt: onp.asarray(sec(float(onp.asarray(tt).reshape(-1)[0])), dtype=float), onp.array([0.0]))
                        res["third_num"] = float(T3.reshape(-1)[0])
                    except O.Untrusted:
                        pass
                    except Exception:
                        pass
                try:
                    Hn, _ = O.numjac(lambda xx: onp.asarray(gfun(xx), dtype=float), x)
                    res["num"] = Hn
                except O.Untrusted as e:
                    res["num_untrusted"] = str(e)
                except Exception as e:
                    res["num_untrusted"] = "gradient raised near the point: %s" % type(e).__name__
        return case, which, res

    def judge(ch, out):
        case, which, res = out
        counts = collections.Counter()
        o = dict(v=[], nontrivial=False, outcome=None, counts=counts,
                 sample=dict(choices=list(ch.choices), prim=case.name, expr=case.expr, argnum=which[0]))
        if "first_order_exc" in res or not res.get("grad_shape_ok", True):
            counts["first-order-unsupported-or-misshapen(C01/C05)"] += 1
            return o
        routes = {r: res[r] for r in ("RR", "FR", "RF") if r in res}
        for r in ("RR", "FR", "RF"):
            if r + "_exc" in res:
                counts["raised-" + r] += 1
        if not routes:
            return o
        n = res["n"]
        V = lambda mode, kind, got, want, extra=None: o["v"].append(
            W.mk_violation(PROP, spec_name, ch, case, which, mode, kind, got, want, dict(extra or {}, complexified=res.get("cmode", "no"))))
        names = sorted(routes)
        bad_shape = [r for r in names if routes[r].shape != (n, n)]
        if bad_shape:
            V("+".join(bad_shape), "wrong-shape", [routes[r].shape for r in bad_shape], (n, n))
            return o
        ref = routes[names[0]]
        for r in names[1:]:
            if _differ(routes[r], ref):
                V(names[0] + "-vs-" + r, "routes-disagree", dict(max_rel=O.maxrel(routes[r], ref), a=W.summarize(ref), b=W.summarize(routes[r])), None)
        for r in names:
            Hm = routes[r]
            if onp.all(onp.isfinite(Hm)) and O.maxrel(Hm, Hm.T) > TOL_ROUTES:
                V(r, "hessian-not-symmetric", W.summarize(Hm), None)
                break
        if "num" in res:
            Hn = res["num"]
            for r in names:
                if Hn.shape == routes[r].shape and not O.maxrel(routes[r], Hn) <= TOL_NUM:
                    V(r, "wrong-value", dict(max_rel=O.maxrel(routes[r], Hn), got=W.summarize(routes[r])), W.summarize(Hn))
                    break
            counts["numerically-checked"] += 1
            o["nontrivial"] = bool(onp.any(Hn != 0) and n > 1)
        else:
            counts["undecided-numerically"] += 1
        if res.get("third"):
            r3 = res["third"]
            k3 = sorted(r3)
            vals3 = [r3[k] for k in k3]
            if all(onp.isfinite(vals3)):
                if max(vals3) - min(vals3) > 1e-8 * (1 + max(abs(t_) for t_ in vals3)):
                    V("+".join(k3), "third-order-routes-disagree", r3, None)
                elif "third_num" in res and not abs(vals3[0] - res["third_num"]) <= 1e-5 * (1 + abs(res["third_num"])):
                    V(k3[0], "third-order-wrong-value", r3, res["third_num"])
                counts["third-order-checked" if "third_num" in res else "third-order-routes-only"] += 1
            for k in res:
                if k.startswith("third_exc_"):
                    counts["third-raised-" + k[10:]] += 1
        if "gn_want" in res:
            for r in ("gn_RR", "gn_FR"):
                if r in res and (res[r].shape != res["gn_want"].shape or not O.maxrel(res[r], res["gn_want"]) <= TOL_NUM):
                    V(r, "gauss-newton-hessian-wrong", dict(max_rel=O.maxrel(res[r], res["gn_want"]) if res[r].shape == res["gn_want"].shape else "shape",
                                                             got=W.summarize(res[r])), W.summarize(res["gn_want"]))
                    break
            counts["gauss-newton-checked"] += 1
        elif "gn_exc" in res:
            counts["gauss-newton-raised"] += 1
        counts["routes-%d" % len(names)] += 1
        o["outcome"] = (tuple(names), "num" in res)
        return o

    return h, judge


def _differ(A, B):
    """Finite entries must agree to TOL_ROUTES and the NaN patterns must coincide (NaN itself is judged by C01/C02)."""
    na, nb = onp.isnan(A), onp.isnan(B)
    if onp.any(na != nb):
        return True
    ok = ~na
    if not onp.any(ok):
        return False
    with onp.errstate(all="ignore"):
        return bool(onp.max(onp.abs(A[ok] - B[ok]) / (1 + onp.abs(B[ok]))) > TOL_ROUTES)


# the FFT family: complex results of real operands are differentiated through their realification [Re, Im]
FFT_SECOND_ORDER = True


def _table():
    specs = J.load_catalog()
    table = {}
    for name, (fn, fam) in specs.items():
        if fam == "F" and not FFT_SECOND_ORDER:
            continue

        def factory(quick, seed, name=name, fn=fn, fam=fam):
            # third order along one direction: every family, both tiers
            return make_harness(name, fn, Tier(quick, seed, reduced=quick) if quick else _thorough_tier(seed), third=True, spec_fam=fam)

        table["cat:" + name] = factory
    return table


def _thorough_tier(seed):
    t = Tier(True, seed)      # the quick first-order alphabet (rank<=2 over {1,2,3} + rank 3 over {1,2}) at second order
    return t


HARNESSES = _table()


def run(ctx):
    rep = Report("exploration")
    run_harnesses(ctx, rep, __name__, list(HARNESSES), depth=2)
    per = rep.cov["per_harness"]
    tot = collections.Counter()
    for d in per.values():
        tot.update(d["counts"])
    rep.cov["outcome_totals"] = dict(tot)
    rep.add(rule="one leaf = (primitive spec, configuration, differentiated operand); for the scalar projection phi = sum(W * f(x)) the Hessian is "
                 "assembled column by column by reverse-over-reverse, forward-over-reverse and reverse-over-forward; routes must agree (1e-9), be "
                 "symmetric, and match the trust-tested numerical Jacobian of autograd's own gradient function (1e-6); non-trivial = Hessian not zero",
            bound="quick: rank<=2 dims {1,2}; thorough: rank<=2 dims {1,2,3} + rank 3 dims {1,2}")
    rep.assumptions = ["first-order correctness of the gradient being differentiated numerically is C01's subject",
                       "a route that raises is counted, not judged (loud failure)"]
    return rep


def replay(ctx, v):
    return replay_generic(__name__, ctx, v)
