"""C12 - nested containers are differentiated leaf-wise; flatten/unflatten are inverse and commute with grad.

  access     container value (nesting alphabet) x access style per level (index, negative index, iteration, unpacking,
             slices, + in both operand orders, len/in/index queries, dict keys/values/items/get/iter) in reverse and
             forward mode, against the leaf-wise closed form  d/dleaf sum_k w_k sin(leaf_k) = w_k cos(leaf_k)
  construct  autograd.builtins tuple/list/dict constructors with traced members, nested, then read back
  flatten    flatten/unflatten mutually inverse on values; grad(f o unflatten)(flat) == flatten(grad(f)(c))
"""
import itertools
import warnings

import numpy as onp

from ..findings import violation
from ..par import replay_generic, run_harnesses
from ..runner import Report

PROP = "C12"
_L = {}


def lib():
    if not _L:
        import autograd
        import autograd.numpy as anp
        import autograd.builtins as ab
        from autograd.misc.flatten import flatten
        _L.update(ag=autograd, np=anp, ab=ab, flatten=flatten)
    return _L


def leaves_alpha():
    return [("f", 0.7), ("a", onp.array([0.3, -1.1])), ("m", onp.array([[0.2, 0.5]]))]


def layout_values():
    """Leaves whose memory layout is not C-contiguous (flatten/unflatten must not depend on it)."""
    M = onp.arange(6.0).reshape(2, 3) * 0.25 + 0.1
    return [(onp.asfortranarray(M), 1.5), [M.T, onp.array([0.5])], {"w": onp.asfortranarray(M), "b": M[:, ::2]}, (M[::-1], M.T.copy())]


def values(quick):
    L = leaves_alpha()
    lv = [v for _, v in L]
    base = []
    for k in (1, 2, 3):
        for combo in itertools.product(range(len(lv)), repeat=k):
            if k == 3 and combo not in ((0, 1, 2), (1, 1, 0), (0, 0, 0)):
                continue
            items = [lv[i] for i in combo]
            base.append(tuple(items))
            base.append(list(items))
            base.append({("k%d" % j): it for j, it in enumerate(items)})
    out = list(base) + [(), [], {}]
    picks = [base[0], base[1], base[2], base[9], base[10], base[11], (), {}, [lv[1], lv[0]], {"b": lv[0], "a": lv[1]}]
    for a, b in itertools.product(picks + lv[:2], repeat=2):
        if not (isinstance(a, (tuple, list, dict)) or isinstance(b, (tuple, list, dict))):
            continue
        out.append((a, b))
        out.append({"p": a, "q": b})
        if not quick:
            out.append([a, b])
            out.append((a, b, lv[0]))
    if not quick:
        deep = [((lv[0], [lv[1], {"z": lv[0]}]), {"u": (lv[1],)}), [[[lv[0]], lv[1]], ()], {"a": {"b": {"c": lv[1]}}, "d": [lv[0], (lv[0], lv[1])]}]
        out += deep
    return out


SEQ_STYLES = ["index", "negindex", "iter", "unpack", "slice-all", "slice-rev", "slice-split", "add", "radd", "add2", "add0", "radd0", "queries"]
DICT_STYLES = ["getitem", "keys", "values", "items", "get", "get-default-is-stored", "iter", "queries"]


def read(c, styles, depth, isbox_container):
    """Return the list of (path, leaf) reached from container c with the access style of this depth."""
    st_seq, st_dict = styles[min(depth, len(styles) - 1)]
    out = []
    raw = c
    if isbox_container(c, dict):
        st = st_dict
        keys = list(c.keys()) if st != "iter" else [k for k in c]
        if st == "getitem":
            elems = [(k, c[k]) for k in keys]
        elif st == "keys":
            elems = [(k, c[k]) for k in c.keys()]
        elif st == "values":
            elems = list(zip(keys, c.values()))
        elif st == "items":
            elems = list(c.items())
        elif st == "get":
            elems = [(k, c.get(k)) for k in keys]
            assert c.get("no-such-key", None) is None
        elif st == "get-default-is-stored":
            # the default handed to get() is the very object stored under the key (a params dict initialised from module-level defaults)
            stored = getattr(c, "_value", c)
            elems = [(k, c.get(k, stored[k])) for k in keys]
        elif st == "iter":
            elems = [(k, c[k]) for k in keys]
        else:   # queries
            assert len(c) == len(keys) and all(k in c for k in keys) and "no-such-key" not in c
            elems = [(k, c[k]) for k in keys]
    elif isbox_container(c, (tuple, list)):
        st = st_seq
        n = len(c)
        if st == "index":
            elems = [(i, c[i]) for i in range(n)]
        elif st == "negindex":
            elems = [(i, c[i - n]) for i in range(n)]
        elif st == "iter":
            elems = [(i, e) for i, e in enumerate(c)] if not hasattr(c, "_value") else [(i, c[i]) for i in range(len(c))]
        elif st == "unpack":
            elems = list(enumerate([*c] if not hasattr(c, "_value") else [c[i] for i in range(n)]))
        elif st == "slice-all":
            s = c[:]
            elems = [(i, s[i]) for i in range(n)]
        elif st == "slice-rev":
            s = c[::-1]
            elems = [(n - 1 - i, s[i]) for i in range(n)]
        elif st == "slice-split":
            h, t = c[:1], c[1:]
            elems = [(i, h[i]) for i in range(len(h))] + [(i + 1, t[i]) for i in range(len(t))]
        elif st == "add":
            s = c + type(_val(c))((7.5,))
            assert len(s) == n + 1
            elems = [(i, s[i]) for i in range(n)]
        elif st == "radd":
            s = type(_val(c))((7.5, 8.5)) + c
            elems = [(i, s[i + 2]) for i in range(n)]
        elif st == "add0":          # an EMPTY right operand
            s = c + type(_val(c))(())
            assert len(s) == n
            elems = [(i, s[i]) for i in range(n)]
        elif st == "radd0":         # an EMPTY left operand
            s = type(_val(c))(()) + c
            elems = [(i, s[i]) for i in range(n)]
        elif st == "add2":
            s = (c + type(_val(c))((1.5, 2.5, 3.5)))[: n + 1]
            elems = [(i, s[i]) for i in range(n)]
        else:  # queries
            assert len(c) == n
            elems = [(i, c[i]) for i in range(n)]
    else:
        return [((), c)]
    for k, e in elems:
        for p, leaf in read(e, styles, depth + 1, isbox_container):
            out.append(((k,) + p, leaf))
    return out


def _val(c):
    return getattr(c, "_value", c)


def weight(path):
    w = 1.0
    for i, k in enumerate(path):
        h = (sum(ord(ch) for ch in k) if isinstance(k, str) else k + 1)
        w += 0.37 * (i + 1) * h
    return w


def expected_grad(c):
    def rec(v, path):
        if isinstance(v, dict):
            return {k: rec(x, path + (k,)) for k, x in v.items()}
        if isinstance(v, (tuple, list)):
            return type(v)(rec(x, path + (i,)) for i, x in enumerate(v))
        return weight(path) * onp.cos(v)
    return rec(c, ())


def same(a, b, tol=1e-12):
    if isinstance(b, dict):
        return isinstance(a, dict) and list(a.keys()) == list(b.keys()) and all(same(a[k], b[k], tol) for k in b)
    if isinstance(b, (tuple, list)):
        return type(a) == type(b) and len(a) == len(b) and all(same(x, y, tol) for x, y in zip(a, b))
    a_, b_ = onp.asarray(a), onp.asarray(b)
    return a_.shape == b_.shape and bool(onp.all(onp.abs(a_ - b_) <= tol * (1 + onp.abs(b_))))


def access_factory(quick, seed):
    L = lib()
    ag, np, ab = L["ag"], L["np"], L["ab"]
    vals = values(quick)

    def isbc(c, types):
        return ab.isinstance(c, types)

    def h(ch):
        c = ch.choose("value", vals)
        s0 = (ch.choose("seq_style0", SEQ_STYLES), ch.choose("dict_style0", DICT_STYLES))
        s1 = (ch.choose("seq_style1", ["index", "iter", "slice-rev", "radd"]), ch.choose("dict_style1", ["getitem", "items"]))
        styles = [s0, s1]

        def f(cc):
            tot = 0.0
            for path, leaf in read(cc, styles, 0, isbc):
                tot = tot + weight(path) * np.sum(np.sin(leaf))
            return tot

        obs = {}
        with warnings.catch_warnings():
            warnings.simplefilter("ignore")
            try:
                obs["plain"] = float(f(c))
            except Exception as e:
                obs["plain_exc"] = "%s: %s" % (type(e).__name__, str(e)[:80])
            try:
                val, g = ag.value_and_grad(f)(c)
                obs["val"], obs["grad"] = float(val), g
            except Exception as e:
                obs["rev_exc"] = "%s: %s" % (type(e).__name__, str(e)[:80])
            try:
                from autograd.core import vspace
                ones = vspace(c).ones()
                v2, t = ag.make_jvp(f)(c)(ones)
                obs["tangent"] = float(t)
            except Exception as e:
                obs["fwd_exc"] = "%s: %s" % (type(e).__name__, str(e)[:80])
        return c, styles, obs

    def judge(ch, out):
        c, styles, obs = out
        want = expected_grad(c)
        nleaves = len(read(c, [("index", "getitem")], 0, lambda v, t: isinstance(v, t)))
        want_t = sum(float(onp.sum(weight(p) * onp.cos(l))) for p, l in read(c, [("index", "getitem")], 0, lambda v, t: isinstance(v, t)))
        kind = type(c).__name__
        feats = dict(outer=kind, seq_style=styles[0][0], dict_style=styles[0][1], inner_seq_style=styles[1][0], leaves=min(nleaves, 3))
        res = dict(v=[], nontrivial=nleaves >= 2, outcome=(kind, nleaves), counts={},
                   sample=dict(choices=list(ch.choices), value=repr(c)[:120], styles=styles, leaves=nleaves,
                               outcome={k: v for k, v in obs.items() if k.endswith("exc")} or "leaf-wise gradient matches"))
        repro = "# container %r read with styles %r; f = sum_k w_k * sum(sin(leaf_k)); see mc/props/c12.py" % (c, styles)
        V = lambda mode, k, got, w: res["v"].append(violation(PROP, "access", kind, mode, k, feats, ch.choices, dict(value=repr(c)[:200], styles=styles), got, w, repro))
        if "plain_exc" in obs:
            res["counts"]["plain-raises"] = 1     # the access program itself is invalid for this value (e.g. list + tuple)
            return res
        if "rev_exc" in obs:
            V("rev", "raised", obs["rev_exc"], None)
        else:
            if abs(obs["val"] - obs["plain"]) > 1e-12 * (1 + abs(obs["plain"])):
                V("rev", "wrong-primal", obs["val"], obs["plain"])
            if not same(obs["grad"], want):
                V("rev", "wrong-gradient", repr(obs["grad"])[:300], repr(want)[:300])
        if "fwd_exc" in obs:
            res["counts"]["fwd-raises"] = 1        # missing forward rules must raise: allowed
        elif abs(obs["tangent"] - want_t) > 1e-11 * (1 + abs(want_t)):
            V("fwd", "wrong-tangent", obs["tangent"], want_t)
        return res

    return h, judge


def construct_factory(quick, seed):
    L = lib()
    ag, np, ab = L["ag"], L["np"], L["ab"]
    FORMS = [
        ("ab.tuple((x, y))", "(x, y)"), ("ab.list([x, y, x])", "[x, y, x]"), ("ab.dict(a=x, b=y)", "dict(a=x, b=y)"),
        ("ab.dict({'a': x, 'b': ab.tuple((y, x))})", "{'a': x, 'b': (y, x)}"), ("ab.tuple((x, ab.list([y, x])))", "(x, [y, x])"),
        ("ab.list([ab.dict(p=x), ab.tuple((y,))])", "[dict(p=x), (y,)]"), ("ab.tuple((x, 2.0, y))", "(x, 2.0, y)"),
        ("ab.dict([('k', x), ('l', y)])", "dict([('k', x), ('l', y)])"), ("ab.tuple(ab.list([x, y]))", "tuple([x, y])"),
        ("ab.list(ab.tuple((x,)) + (y,))", "list((x,) + (y,))"), ("ab.tuple(())", "()"), ("ab.dict()", "dict()"),
    ]

    def h(ch):
        src, plain = ch.choose("constructor", FORMS)
        kx = ch.choose("x_kind", ["float", "array"])
        read_style = ch.choose("read", SEQ_STYLES[:6])
        arg = ch.choose("argnum", [0, 1, (0, 1)])
        x = 0.6 if kx == "float" else onp.array([0.6, -0.2])
        y = 1.4 if kx == "float" else onp.array([1.4, 0.9])

        def isbc(c, types):
            return ab.isinstance(c, types)

        def f(x, y, build):
            c = eval(build, dict(ab=ab, x=x, y=y, dict=dict))
            tot = 0.0 * np.sum(x)
            for path, leaf in read(c, [(read_style, "items")], 0, isbc):
                tot = tot + weight(path) * np.sum(np.sin(leaf))
            return tot

        obs = {}
        with warnings.catch_warnings():
            warnings.simplefilter("ignore")
            try:
                obs["grad"] = ag.grad(lambda x, y: f(x, y, src), arg)(x, y)
                obs["ref"] = ag.grad(lambda x, y: f(x, y, plain), arg)(x, y) if False else None
            except Exception as e:
                obs["exc"] = "%s: %s" % (type(e).__name__, str(e)[:100])
            # reference: the same expression on plain values, differentiated numerically leaf by leaf is overkill: closed form
            c_plain = eval(plain, dict(x=x, y=y, dict=dict))
            gx = 0.0 * onp.asarray(x)
            gy = 0.0 * onp.asarray(y)
            for path, leaf in read(c_plain, [("index", "getitem")], 0, lambda v, t: isinstance(v, t)):
                if leaf is x:
                    gx = gx + weight(path) * onp.cos(x)
                elif leaf is y:
                    gy = gy + weight(path) * onp.cos(y)
            obs["want"] = gx if arg == 0 else (gy if arg == 1 else (gx, gy))
        return src, kx, read_style, arg, obs

    def judge(ch, out):
        src, kx, rs, arg, obs = out
        feats = dict(constructor=src.split("(")[0], x_kind=kx, read=rs)
        res = dict(v=None, nontrivial=True, outcome=src, counts={},
                   sample=dict(choices=list(ch.choices), constructor=src, read=rs, argnum=repr(arg), outcome=obs.get("exc", "matches")))
        repro = "import autograd, autograd.builtins as ab, autograd.numpy as np  # container built by %s, read style %s, argnum %r" % (src, rs, arg)
        if "exc" in obs:
            res["v"] = violation(PROP, "construct", src.split("(")[0], "rev", "raised", feats, ch.choices, dict(constructor=src), obs["exc"], None, repro)
        elif not same(obs["grad"], obs["want"], 1e-12) and not (isinstance(obs["want"], tuple) and same(tuple(obs["grad"]), obs["want"])):
            res["v"] = violation(PROP, "construct", src.split("(")[0], "rev", "wrong-gradient", feats, ch.choices, dict(constructor=src),
                                 repr(obs["grad"])[:200], repr(obs["want"])[:200], repro)
        return res

    return h, judge


def flatten_factory(quick, seed):
    L = lib()
    ag, np, flatten = L["ag"], L["np"], L["flatten"]
    vals = layout_values() + [v for v in values(quick) if True]

    def h(ch):
        c = ch.choose("value", vals)
        check = ch.choose("check", ["roundtrip", "inverse-on-vectors", "commutes-with-grad", "linear", "layout", "flatten_func", "second-order", "jvp"])
        obs = {}
        with warnings.catch_warnings():
            warnings.simplefilter("ignore")
            try:
                flat, unflatten = flatten(c)
                n = flat.size
                if check == "layout":      # the flat vector is the C-order concatenation of the leaves (dict keys sorted), whatever their memory layout
                    obs["ok"] = same(flat, _flat_ref(c), 0)
                elif check == "roundtrip":
                    obs["ok"] = same(unflatten(flat), _as_float(c), 0) and flat.ndim == 1
                elif check == "inverse-on-vectors":
                    v = onp.arange(n) * 0.5 - 1.0
                    obs["ok"] = same(flatten(unflatten(v))[0], v, 0)
                elif check == "linear":
                    v, w = onp.arange(n) * 0.5 - 1.0, onp.cos(onp.arange(n) + 1.0)
                    lhs = flatten(unflatten(2.0 * v + w))[0]
                    obs["ok"] = same(lhs, 2.0 * flatten(unflatten(v))[0] + flatten(unflatten(w))[0], 1e-13)
                elif check in ("flatten_func", "second-order", "jvp"):
                    from autograd.misc.flatten import flatten_func

                    def g(cc, scale):      # container -> container of the same nesting
                        return tmap_box(lambda leaf: scale * np.sin(leaf) * leaf, cc)
                    if n == 0:
                        obs["ok"] = True
                    elif check == "flatten_func":
                        ff, unfl, flat0 = flatten_func(g, c)
                        lhs = ff(flat0, 1.5)
                        rhs = flatten(g(c, 1.5))[0]
                        J = ag.jacobian(ff)(flat0, 1.5)
                        Jref = onp.diag(1.5 * (onp.cos(flat0) * flat0 + onp.sin(flat0)))
                        obs["ok"] = same(lhs, rhs, 1e-13) and same(flat0, flat, 0) and same(J, Jref, 1e-12)
                        obs["detail"] = (repr(lhs)[:100], repr(rhs)[:100])
                    else:
                        phi = lambda v: np.sum(flatten(g(unflatten(v), 1.0))[0] ** 2)
                        x_ = onp.asarray(flat, dtype=float)
                        s_, c_ = onp.sin(x_), onp.cos(x_)
                        u = s_ * x_
                        du = c_ * x_ + s_
                        ddu = 2 * c_ - s_ * x_
                        if check == "second-order":
                            H = ag.hessian(phi)(x_)
                            obs["ok"] = same(H, onp.diag(2 * du * du + 2 * u * ddu), 1e-11)
                            obs["detail"] = (repr(onp.diag(H))[:100], repr(2 * du * du + 2 * u * ddu)[:100])
                        else:
                            t = onp.cos(onp.arange(n) + 0.5)
                            try:
                                obs["ok"] = same(ag.make_jvp(phi)(x_)(t)[1], onp.sum(2 * u * du * t), 1e-11)
                            except NotImplementedError:
                                obs["ok"] = True        # no forward rule for this constructor: a loud failure ("both modes where rules exist")
                                obs["no_forward_rule"] = True
                else:
                    def f(cc):
                        tot = 0.0
                        for path, leaf in read(cc, [("index", "getitem")], 0, lambda v_, t: L["ab"].isinstance(v_, t)):
                            tot = tot + weight(path) * np.sum(np.sin(leaf))
                        return tot
                    if n == 0:
                        obs["ok"] = True
                    else:
                        lhs = ag.grad(lambda v: f(unflatten(v)))(flat)
                        rhs = flatten(ag.grad(f)(c))[0]
                        obs["ok"] = same(lhs, rhs, 1e-12)
                        obs["detail"] = (repr(lhs)[:100], repr(rhs)[:100])
            except Exception as e:
                obs["exc"] = "%s: %s" % (type(e).__name__, str(e)[:100])
        return c, check, obs

    def judge(ch, out):
        c, check, obs = out
        kind = type(c).__name__
        res = dict(v=None, nontrivial=True, outcome=(kind, check), counts={},
                   sample=dict(choices=list(ch.choices), value=repr(c)[:100], check=check, outcome=obs.get("exc", obs.get("ok"))))
        if "exc" in obs or not obs.get("ok"):
            res["v"] = violation(PROP, "flatten", "flatten", "rev", "raised" if "exc" in obs else check + "-fails", dict(check=check, outer=kind),
                                 ch.choices, dict(value=repr(c)[:200]), obs.get("exc") or obs.get("detail"), None,
                                 "from autograd.misc.flatten import flatten  # value %r, check %s" % (c, check))
        return res

    return h, judge


def tmap_box(f, c):
    """Leaf-wise map that also walks autograd's container boxes (built with autograd.builtins so that the result is traceable)."""
    L = lib()
    ab = L["ab"]
    if ab.isinstance(c, dict):
        return ab.dict({k: tmap_box(f, c[k]) for k in c})
    if ab.isinstance(c, tuple):
        return ab.tuple([tmap_box(f, e) for e in c])
    if ab.isinstance(c, list):
        return ab.list([tmap_box(f, e) for e in c])
    return f(c)


def _flat_ref(c):
    if isinstance(c, dict):
        parts = [_flat_ref(c[k]) for k in sorted(c)]
    elif isinstance(c, (tuple, list)):
        parts = [_flat_ref(v) for v in c]
    else:
        return onp.asarray(c, dtype=float).ravel()
    return onp.concatenate(parts) if parts else onp.zeros(0)


def _as_float(c):
    if isinstance(c, dict):
        return {k: _as_float(v) for k, v in c.items()}
    if isinstance(c, (tuple, list)):
        return type(c)(_as_float(v) for v in c)
    return onp.asarray(c, dtype=float) if isinstance(c, onp.ndarray) else onp.array(c)


def cotangent_factory(quick, seed):
    """make_vjp of container-valued functions applied to cotangent containers given by the CALLER (any key order, tuple or list
    where the function returned that type): leaves must be matched by key / position, never by iteration order."""
    L = lib()
    ag, np, ab = L["ag"], L["np"], L["ab"]
    FNS = {
        "dict(b, a)": (lambda x: ab.dict(b=3.0 * x, a=np.sin(x)), lambda x, c: c["b"] * 3.0 + c["a"] * onp.cos(x)),
        "dict literal": (lambda x: ab.dict({"z": x * x, "m": 2.0 * x, "a": x}), lambda x, c: c["z"] * 2 * x + c["m"] * 2.0 + c["a"]),
        "tuple(dict, x)": (lambda x: ab.tuple((ab.dict(q=x * 2.0, p=x ** 3), x)), lambda x, c: c[0]["q"] * 2.0 + c[0]["p"] * 3 * x ** 2 + c[1]),
        # the dict is both returned (caller's cotangent dict) and indexed (sparse item contributions): two dict cotangents are added
        "tuple(dict, a*b)": (lambda x: (lambda d: ab.tuple((d, d["a"] * d["b"])))(ab.dict({"a": np.sin(x), "b": x ** 2})),
                             lambda x, c: c[0]["a"] * onp.cos(x) + c[0]["b"] * 2 * x + c[1] * (onp.cos(x) * x ** 2 + onp.sin(x) * 2 * x)),
        "dict(d, item)": (lambda x: (lambda d: ab.dict(d=d, item=d["v"]))(ab.dict({"u": x * 2.0, "v": np.cos(x)})),
                          lambda x, c: c["d"]["u"] * 2.0 - (c["d"]["v"] + c["item"]) * onp.sin(x)),
        # one tuple value consumed by four dense users (three concatenations and itself): four container cotangents are accumulated
        "tuple extended thrice": (lambda x: (lambda t: ab.tuple((t + ab.tuple((x,)), t + ab.tuple((2.0 * x,)), ab.tuple((3.0 * x,)) + t, t)))(ab.tuple((x * x, np.sin(x)))),
                                  lambda x, c: (c[0][0] + c[1][0] + c[2][1] + c[3][0]) * 2 * x + (c[0][1] + c[1][1] + c[2][2] + c[3][1]) * onp.cos(x)
                                  + c[0][2] + 2.0 * c[1][2] + 3.0 * c[2][0]),
        "list extended thrice": (lambda x: (lambda t: ab.list([t + [x], t + [2.0 * x], t + [3.0 * x], t + [4.0 * x]]))(ab.list([x * x, np.sin(x)])),
                                 lambda x, c: sum(c[k][0] for k in range(4)) * 2 * x + sum(c[k][1] for k in range(4)) * onp.cos(x)
                                 + c[0][2] + 2.0 * c[1][2] + 3.0 * c[2][2] + 4.0 * c[3][2]),
        "list": (lambda x: ab.list([x, x * x, np.sin(x)]), lambda x, c: c[0] + c[1] * 2 * x + c[2] * onp.cos(x)),
        "dict of tuples": (lambda x: ab.dict(u=ab.tuple((x, 2 * x)), v=x ** 2), lambda x, c: c["u"][0] + 2 * c["u"][1] + c["v"] * 2 * x),
    }

    def permutations_of(c):
        if isinstance(c, dict):
            keys = list(c)
            outs = []
            for perm in itertools.permutations(keys):
                outs.append({k: c[k] for k in perm})
            def deep(v):
                if isinstance(v, dict):
                    return {k: deep(v[k]) for k in reversed(list(v))}
                if isinstance(v, (tuple, list)):
                    return type(v)(deep(e) for e in v)
                return v
            return outs[:6] + [deep(c)]
        return [c]

    def h(ch):
        name = ch.choose("function", sorted(FNS))
        xk = ch.choose("x_kind", ["float", "array"])
        x = 0.8 if xk == "float" else onp.array([0.8, -0.3])
        f, ref = FNS[name]
        with warnings.catch_warnings():
            warnings.simplefilter("ignore")
            vjp, val = ag.make_vjp(f)(x)
            from autograd.core import vspace
            base = vspace(val).ones()
            cnt = [0]

            def fill(v):
                if isinstance(v, dict):
                    return {k: fill(x_) for k, x_ in v.items()}
                if isinstance(v, (tuple, list)):
                    return type(v)(fill(x_) for x_ in v)
                cnt[0] += 1
                return v * (0.5 + cnt[0])
            cot = fill(base)
            variants = []
            if isinstance(cot, dict):
                variants = permutations_of(cot)
            elif isinstance(cot, tuple) and isinstance(cot[0], dict):
                variants = [(p,) + cot[1:] for p in permutations_of(cot[0])]
            else:
                variants = [cot]
            k = ch.choose("key_order", list(range(len(variants))))
            c = variants[k]
            try:
                got = vjp(c)
            except Exception as e:
                got = "%s: %s" % (type(e).__name__, str(e)[:100])
            want = ref(x, c)
        return name, k, got, want

    def judge(ch, out):
        name, k, got, want = out
        ok = not isinstance(got, str) and same(got, onp.asarray(want) if not isinstance(want, float) else want, 1e-12)
        v = None if ok else violation(PROP, "cotangent", name, "rev", "raised" if isinstance(got, str) else "wrong-gradient", dict(function=name, key_order=k), ch.choices,
                                      dict(function=name, key_order=k), repr(got)[:200], repr(want)[:200], "# make_vjp of a %s-valued function, cotangent keys permuted (order %d)" % (name, k))
        return dict(v=v, nontrivial=k > 0, outcome=(name, k), counts={}, sample=dict(choices=list(ch.choices), function=name, key_order=k))

    return h, judge


HARNESSES = {"access": access_factory, "construct": construct_factory, "flatten": flatten_factory, "cotangent": cotangent_factory}


def run(ctx):
    rep = Report("exploration")
    run_harnesses(ctx, rep, __name__, ["access", "construct", "flatten", "cotangent"], depth=2)
    rep.add(rule="access: (container value, outer sequence style, outer dict style, inner styles); construct: (constructor form, leaf "
                 "kind, read style, argnum); flatten: (value, identity); non-trivial = at least two leaves", values=len(values(ctx.quick)))
    rep.assumptions = ["nesting depth <= %d; leaves: float, (2,) and (1,2) float arrays" % (2 if ctx.quick else 3),
                       "closed-form reference: d/dleaf sum_k w_k sum(sin(leaf_k)) = w_k cos(leaf_k)"]
    return rep


def replay(ctx, v):
    return replay_generic(__name__, ctx, v)
