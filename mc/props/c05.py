"""C05 - a gradient lives in the space of its argument (catalogue walk + kind mixing)."""
from ..judges import harness_table, run_catalog
from ..par import replay_generic

PROP = "C05"
HARNESSES = harness_table(PROP, families=("U", "B", "R", "S", "K", "W", "L"))


def run(ctx):
    rep = run_catalog(ctx, __name__, HARNESSES)
    rep.add(rule='one leaf = one call configuration; vspace(VJP result)==vspace(argument) for every basis cotangent and vspace(JVP tangent)==vspace(output) for every basis tangent; non-trivial = several operands, a scalar operand or a size-1 dimension',
            bound="quick: rank<=2 dims {1,2,3} + rank 3 dims {1,2}, 1 point; thorough: rank<=3 dims {1,2,3} + rank 4 dims {1,2}, 2 points")
    rep.assumptions = ['finite alphabets of shapes and operand kinds']
    return rep


def replay(ctx, v):
    return replay_generic(__name__, ctx, v)
