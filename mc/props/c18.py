"""C18 - the bundled gradient checker accepts correct rules and rejects wrong ones.

check_grads draws its random projections through numpy.random.randn.  The harness owns that seam: every scalar drawn is
a *choice* among the K mid-points of the K equiprobable bins of N(0,1), and the explorer enumerates ALL draw sequences
(a genuine tree: a rejection at order 1 ends the run before the order-2 draws).  A leaf at depth D has weight K^-D.
Configurations: argument kind x planted defect (or none) x mode x order.  Correct rules must be accepted on every leaf;
each defect must be rejected on >= 99 % of the lattice weight.
"""
import warnings
from statistics import NormalDist

import numpy as onp

from ..explore import Chooser, Skip, leaves
from ..findings import violation
from ..par import run_harnesses
from ..runner import Report

PROP = "C18"
_L = {}


def lib():
    if not _L:
        import autograd
        import autograd.numpy as anp
        import autograd.extend as ext
        import autograd.test_util as tu
        from autograd.tracer import getval
        _L.update(ag=autograd, np=anp, ext=ext, tu=tu, getval=getval)
    return _L


def lattice(K, seed=0):
    """K points, one in each of the K equiprobable bins of N(0,1) (so each has weight 1/K).  The position inside the bin is
    deliberately irregular (not the mid-point): a perfectly symmetric lattice makes bilinear forms such as <u, v> vanish
    exactly on a set of positive lattice weight, an artefact the Gaussian measure does not have."""
    offs = [0.5 + 0.37 * (((i * 7 + 3 + 5 * seed) % 11) - 5) / 5.0 for i in range(K)]
    return [NormalDist().inv_cdf((i + o) / K) for i, o in enumerate(offs)]


DEFECTS = ["none", "scale1.01", "scale0.99", "sign", "entry1pct", "transpose", "missing-reduction", "opaque-at-order-2", "conj",
           "conj-cotangent", "drop-imag-cotangent",            # complex argument: the rule mistreats the incoming (co)tangent, not its own factor
           "fwd-defect-inside-vjp-rule", "rev-defect-inside-jvp-rule",   # only the mixed second-order combinations can see these
           "nan-entry",                      # the rule is right except for a NaN (formula evaluated at a removable singularity)
           "tangent-slot-defect"]            # the JVP routes its tangent through a helper whose derivative IN THE TANGENT is wrong (order 2, forward)
KINDS = ["scalar", "array", "matrixfn", "complex", "container", "broadcast", "linearfn"]
A = onp.array([[1.3, -0.4], [0.8, 2.1]])


def build(kind, defect):
    """Returns (function to check, argument). The user primitive inside has correct forward value and the given defect in
    BOTH its VJP and JVP rule (so that each mode can be asked to find it)."""
    L = lib()
    np, ext, getval = L["np"], L["ext"], L["getval"]
    s = {"scale1.01": 1.01, "scale0.99": 0.99, "sign": -1.0}.get(defect, 1.0)

    def entry(v, g=None):
        """single wrong entry: entry 0 is off by 1 % of the incoming (co)tangent's first component (an error relative to the
        entry itself would be invisible wherever that entry happens to be ~0, which the checker's absolute tolerance allows)"""
        if defect != "entry1pct":
            return v
        m = onp.zeros(onp.shape(getval(v)))
        g0 = np.reshape(g, (-1,))[0] if onp.ndim(getval(g)) else g
        if m.shape:
            m.reshape(-1)[0] = 1.0
            return v * (1.0 + 0.01 * m) + 0.01 * m * g0
        return v * 1.01 + 0.01 * g0

    opaque = defect == "opaque-at-order-2"
    shift = 1e-3 if defect == "off-by-const" else 0.0

    if kind in ("scalar", "array", "complex", "container"):
        @ext.primitive
        def prim(x):
            return onp.sin(x) * x

        def d(x):
            if opaque:
                xv = getval(x)
                while hasattr(xv, "_value"):
                    xv = xv._value
                return onp.cos(xv) * xv + onp.sin(xv)          # correct number, but invisible to a second differentiation
            return np.cos(x) * x + np.sin(x)

        cj = (lambda v: np.conj(v)) if defect == "conj" else (lambda v: v)      # a misplaced conjugate on a holomorphic rule
        gq = {"conj-cotangent": np.conj, "drop-imag-cotangent": lambda g: np.real(g) + 0j}.get(defect, lambda g: g)
        d_vjp = d_jvp = d
        if defect == "nan-entry":
            def entry(v, g=None):       # noqa: F811 - replaces the single-wrong-entry operator
                m = onp.zeros(onp.shape(getval(v)))
                if m.shape:
                    m.reshape(-1)[0] = 1.0
                    return v + np.where(m > 0, onp.nan, 0.0)
                return v + onp.nan
        tangent_mul = None
        if defect == "tangent-slot-defect":
            @ext.primitive
            def scale(a, b):
                return a * b
            ext.defvjp(scale, lambda ans, a, b: lambda g: g * b, lambda ans, a, b: lambda g: g * a)
            ext.defjvp(scale, lambda g, ans, a, b: 1.5 * g * b, lambda g, ans, a, b: g * a)      # wrong in its first (tangent) slot only
            tangent_mul = scale
        if defect in ("fwd-defect-inside-vjp-rule", "rev-defect-inside-jvp-rule"):
            # the derivative factor is computed by a helper primitive whose own rule is wrong in ONE mode only
            @ext.primitive
            def helper(x):
                return onp.cos(x) * x + onp.sin(x)
            d2 = lambda x: 2.0 * np.cos(x) - x * np.sin(x)
            bad_fwd = defect == "fwd-defect-inside-vjp-rule"
            ext.defvjp(helper, lambda ans, x: lambda g: (1.0 if bad_fwd else 1.5) * g * d2(x))
            ext.defjvp(helper, lambda g, ans, x: (1.5 if bad_fwd else 1.0) * g * d2(x))
            if bad_fwd:
                d_vjp = helper
            else:
                d_jvp = helper
        ext.defvjp(prim, lambda ans, x: lambda g: entry(s * gq(g) * cj(d_vjp(x)) + shift * g, g))
        if tangent_mul is not None:
            ext.defjvp(prim, lambda g, ans, x: tangent_mul(g, d_jvp(x)))
        else:
            ext.defjvp(prim, lambda g, ans, x: entry(s * gq(g) * cj(d_jvp(x)) + shift * g, g))
        if kind == "scalar":
            return prim, 1.3
        if kind == "array":
            return prim, onp.array([0.4, 1.2])
        if kind == "complex":
            return prim, 0.6 + 0.9j
        return (lambda t: prim(t[0]) * np.sum(prim(t[1]))), (1.3, onp.array([0.4, 1.2]))
    if kind == "linearfn":      # purely linear map: a transposed rule differs by an antisymmetric form only
        @ext.primitive
        def prim(x):
            return onp.dot(A, x)

        M = A.T if defect == "transpose" else A
        ext.defvjp(prim, lambda ans, x: lambda g: s * np.dot(g, M))
        ext.defjvp(prim, lambda g, ans, x: s * np.dot(M, g))
        return prim, onp.array([0.4, 1.2])
    if kind == "matrixfn":
        @ext.primitive
        def prim(x):
            return onp.dot(A, onp.sin(x))

        M = A.T if defect == "transpose" else A
        cosx = (lambda x: onp.cos(_raw(x))) if opaque else np.cos
        ext.defvjp(prim, lambda ans, x: lambda g: entry(s * np.dot(g, M) * cosx(x) + shift * g, g))
        ext.defjvp(prim, lambda g, ans, x: entry(s * np.dot(M, g * cosx(x)) + shift * g, g))
        return prim, onp.array([0.4, 1.2])
    # broadcast: f(a, y) = a * sin(y) with scalar a; the rule w.r.t. a must reduce over y's axes
    @ext.primitive
    def prim(a, y):
        return a * onp.sin(y)

    def va(ans, a, y):
        if defect == "missing-reduction":
            return lambda g: (g * np.sin(y))[0] * 1.0          # forgets to sum over the broadcast axis
        return lambda g: s * np.sum(g * np.sin(y)) + shift * np.sum(g)

    ext.defvjp(prim, va, lambda ans, a, y: lambda g: entry(s * g * a * np.cos(y), g))
    ext.defjvp(prim, lambda g, ans, a, y: (s * g * np.sin(y) if defect != "missing-reduction" else g * np.sin(y) * onp.array([1.0, 0.0])),
               lambda g, ans, a, y: entry(s * g * a * np.cos(y), g))
    yv = onp.array([0.4, 1.2])
    return (lambda a: prim(a, yv)), 0.9


def _raw(x):
    while hasattr(x, "_value"):
        x = x._value
    return x


def applicable(kind, defect):
    if defect in ("none", "scale1.01", "scale0.99", "sign"):
        return True
    if defect == "entry1pct":
        return kind in ("array", "matrixfn", "container")
    if defect == "transpose":
        return kind in ("matrixfn", "linearfn")
    if defect in ("conj", "conj-cotangent", "drop-imag-cotangent"):
        return kind == "complex"
    if defect in ("fwd-defect-inside-vjp-rule", "rev-defect-inside-jvp-rule", "tangent-slot-defect"):
        return kind == "scalar"
    if defect == "nan-entry":
        return kind in ("scalar", "array")
    if defect == "missing-reduction":
        return kind == "broadcast"
    if defect == "opaque-at-order-2":
        return kind in ("scalar", "array", "matrixfn")
    return False


class Draws:
    """numpy.random.randn replacement: every scalar is a chooser decision over the lattice."""

    def __init__(self, ch, K, seed=0):
        self.ch, self.K, self.seed, self.n = ch, K, seed, 0

    def randn(self, *shape):
        n = int(onp.prod(shape)) if shape else 1
        out = []
        for _ in range(n):
            # every draw has its OWN irregular K-point lattice: two drawn vectors are never exactly equal or parallel, an
            # event of measure zero under the Gaussian that a shared lattice would give positive weight
            out.append(self.ch.choose("draw%d" % self.n, lattice(self.K, self.seed + 3 * self.n)))
            self.n += 1
        return onp.array(out).reshape(shape) if shape else out[0]

    def standard_normal(self, size=None):
        if size is None:
            return self.randn()
        return self.randn(*((size,) if isinstance(size, int) else tuple(size)))

    def normal(self, loc=0.0, scale=1.0, size=None):
        return loc + scale * self.standard_normal(size)


def run_check(kind, defect, mode, order, ch, K, seed=0):
    L = lib()
    import numpy.random as npr
    f, x = build(kind, defect)
    d = Draws(ch, K, seed)
    saved = (npr.randn, npr.standard_normal, npr.normal)
    npr.randn, npr.standard_normal, npr.normal = d.randn, d.standard_normal, d.normal
    try:
        with warnings.catch_warnings():
            warnings.simplefilter("ignore")
            try:
                L["tu"].check_grads(f, modes=(["fwd", "rev"] if mode == "both" else [mode]), order=order)(x)
                return "accepted", d.n
            except AssertionError:
                return "rejected", d.n
            except Skip:
                raise
            except Exception as e:
                return "error:%s" % type(e).__name__, d.n
    finally:
        npr.randn, npr.standard_normal, npr.normal = saved


def depth_of(kind, defect, mode, order):
    """Number of scalar draws on the all-default path (lattice value 0 is never used: K is even)."""
    ch = Chooser([])
    out, n = run_check(kind, "none", mode, order, ch, 2)
    return max(n, 1)


def lattice_factory(quick, seed):
    cap = 1000 if quick else 20000

    def h(ch):
        kind = ch.choose("kind", KINDS)
        defect = ch.choose("defect", DEFECTS)
        if not applicable(kind, defect):
            raise Skip("defect does not apply to this argument kind")
        mode = ch.choose("mode", ["rev", "fwd", "both"])
        order = ch.choose("order", [1, 2])
        if defect == "opaque-at-order-2" and order == 1:
            raise Skip("this defect is only visible at order 2")
        if defect == "tangent-slot-defect" and (order == 1 or mode == "rev"):
            raise Skip("visible only to second-order forward checks")
        mixed = defect in ("fwd-defect-inside-vjp-rule", "rev-defect-inside-jvp-rule")
        both_ok = mode == "both" and order == 2 and kind == "scalar" and (mixed or defect in ("sign", "tangent-slot-defect") or (defect == "none" and not quick))
        if (mode == "both" and not both_ok) or (mode != "both" and mixed):
            # both modes together: the default call check_grads(f)(x); walked for the scalar kind at order 2 (15 draws), where the
            # four second-order combinations rr, rf, fr, ff must all be examined
            raise Skip("mixed-mode configuration not walked")
        D = depth_of(kind, defect, mode, order)
        K = 2
        while (K + 2) ** D <= cap:
            K += 2
        outcome, ndraws = run_check(kind, defect, mode, order, ch, K, seed)     # VERIF_SEED selects which fixed lattices
        return dict(kind=kind, defect=defect, mode=mode, order=order, K=K, D=D, outcome=outcome, ndraws=ndraws)

    def judge(ch, o):
        cfg = "%s|%s|%s|%d" % (o["kind"], o["defect"], o["mode"], o["order"])
        w = float(o["K"]) ** (-o["ndraws"])
        counts = {cfg + "|" + o["outcome"].split(":")[0]: w, cfg + "|leaves": 1, cfg + "|K": 0}
        v = None
        feats = dict(kind=o["kind"], defect=o["defect"], mode=o["mode"], order=o["order"])
        if o["defect"] == "none" and o["outcome"] != "accepted":
            v = violation(PROP, "lattice", "check_grads", o["mode"], "correct-rule-" + o["outcome"].split(":")[0], feats, ch.choices, dict(o),
                          o["outcome"], "accepted", "# correct rule, draws = lattice(%d) indices %r" % (o["K"], ch.choices[4:]))
        return dict(v=v, nontrivial=o["defect"] != "none", outcome=(cfg, o["outcome"]), counts=counts,
                    sample=dict(choices=list(ch.choices), config=cfg, lattice_K=o["K"], draws=o["ndraws"], outcome=o["outcome"]))

    return h, judge


HARNESSES = {"lattice": lattice_factory}


def summarize(counts):
    cfgs = {}
    for k, v in counts.items():
        cfg, _, what = k.rpartition("|")
        cfgs.setdefault(cfg, {})[what] = v
    return cfgs


def run(ctx):
    rep = Report("exploration")
    run_harnesses(ctx, rep, __name__, ["lattice"], depth=7)
    cfgs = summarize(rep.cov["per_harness"]["lattice"]["counts"])
    table = {}
    for cfg, d in sorted(cfgs.items()):
        acc, rej, err = d.get("accepted", 0.0), d.get("rejected", 0.0), d.get("error", 0.0)
        tot = acc + rej + err
        table[cfg] = dict(leaves=d.get("leaves"), accepted_weight=round(acc, 6), rejected_weight=round(rej, 6), error_weight=round(err, 6), total_weight=round(tot, 6))
        kind, defect, mode, order = cfg.split("|")
        if abs(tot - 1.0) > 1e-6:
            rep.notes.append("weights of %s sum to %r (tree not a probability tree?)" % (cfg, tot))
        if defect != "none" and (rej + err) < 0.99 * tot:
            rep.violations.append(violation(PROP, "lattice", "check_grads", mode, "defect-accepted-too-often",
                                            dict(kind=kind, defect=defect, mode=mode, order=order), dict(config=cfg), table[cfg],
                                            "accepted on %.4f of the lattice weight" % (acc / tot if tot else 0), "rejected on >= 0.99",
                                            "# defect %s planted in a user primitive (%s argument), check_grads(modes=[%r], order=%s)" % (defect, kind, mode, order)))
    rep.cov["per_harness"]["lattice"]["counts"] = {}
    rep.add(per_configuration=table, configurations=len(table),
            rule="leaf = (argument kind, defect, mode, order, complete sequence of lattice draws); weight K^-draws; correct rules must be "
                 "accepted on every leaf, defects rejected on >= 99% of the weight; non-trivial = a defect is planted")
    rep.assumptions = ["the N(0,1) draws are replaced by the K mid-points of K equiprobable bins (K even, K^draws <= %d): the 0.99 bound is decided "
                       "for this discretised measure" % (1000 if ctx.quick else 20000),
                       "the checker's randomness enters only through numpy.random.randn / standard_normal / normal"]
    return rep


def replay(ctx, v):
    c = v["choices"]
    h, judge = lattice_factory(ctx.quick, ctx.seed)
    if isinstance(c, list):
        from ..explore import run_leaf
        ch, out = run_leaf(h, c)
        return None if isinstance(out, Skip) else judge(ch, out)["v"]
    kind, defect, mode, order = c["config"].split("|")
    prefix = [KINDS.index(kind), DEFECTS.index(defect), ["rev", "fwd", "both"].index(mode), [1, 2].index(int(order))]
    acc = tot = 0.0
    for ch, out in leaves(h, prefix):
        if isinstance(out, Skip):
            continue
        w = float(out["K"]) ** (-out["ndraws"])
        tot += w
        acc += w if out["outcome"] == "accepted" else 0.0
    if tot and acc > 0.01 * tot:
        return v
    return None
