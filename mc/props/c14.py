"""C14 - independent or piecewise-constant dependence yields an exact zero derivative.

  const     constant / argument-independent functions x output kinds x argument kinds x every differential operator:
            result is an exact zero of the right space (never None / NaN / exception)
  nograd    every non-differentiable export (comparisons, floor/ceil/round/sign, arg*, shape/type queries, ...) x shapes x
            axis/extra args x call form, called on a traced value inside make_vjp and make_jvp: returns a plain value
            equal to NumPy's
  compose   x*h(x), h(x)+x, where(h(x), x, c), x**2*h(x): derivative is h(x) etc. exactly, both modes
"""
import warnings

import numpy as onp

from ..explore import Skip
from ..findings import violation
from ..par import replay_generic, run_harnesses
from ..runner import Report

PROP = "C14"
_L = {}


def lib():
    if not _L:
        import autograd
        import autograd.numpy as anp
        import autograd.builtins as ab
        from autograd.core import vspace
        from autograd.tracer import isbox
        _L.update(ag=autograd, np=anp, ab=ab, vspace=vspace, isbox=isbox)
    return _L


def is_exact_zero(v):
    if isinstance(v, dict):
        return all(is_exact_zero(x) for x in v.values())
    if isinstance(v, (tuple, list)):
        return all(is_exact_zero(x) for x in v)
    if v is None:
        return False
    a = onp.asarray(v)
    return a.dtype != object and bool(onp.all(a == 0))


ARGS = {"float": 1.3, "npfloat": onp.float64(0.7), "array": onp.array([0.4, -1.2]), "array0d": onp.array(0.9), "matrix": onp.array([[0.1, 0.2], [0.3, 0.4]]),
        "complex": 0.5 + 1.5j, "carray": onp.array([1.0 + 2.0j, -0.5j]), "tuple": (1.0, onp.array([2.0, 3.0])), "list": [onp.array([1.0]), 2.0],
        "dict": {"a": 1.0, "b": onp.array([0.5, 0.25])}, "nested": ({"k": (1.0, 2.0)}, [onp.array([3.0])]), "empty": onp.zeros((0,))}

CONST_FNS = {
    "py-float": ("lambda x: 3.5", "scalar"), "np-scalar": ("lambda x: onp.float64(2.0)", "scalar"), "array": ("lambda x: onp.array([1.0, 2.0])", "array"),
    "captured": ("lambda x: K", "array"), "0d": ("lambda x: onp.array(4.0)", "scalar"), "anp-made": ("lambda x: np.sum(np.ones(3)) * 2.0", "scalar"),
    "container": ("lambda x: ab.tuple((1.0, onp.ones(2)))", "container"), "other-arg-dependent": ("lambda x: np.sin(Z) * 2.0", "scalar"),
    # dependence only through an argument registered as non-differentiable (the condition of np.where), broadcast against larger branches
    "where-condition": ("lambda x: np.sum(np.where(x, AA, BB))", "scalar"), "where-condition-array": ("lambda x: np.where(x, AA, BB)", "array"),
    "floor-then-smooth": ("lambda x: np.sum(np.sin(np.floor(x)) * AA[0])", "scalar"),
    # constant outputs that are not finite (a log-mask, an infinite bound): the zero must not be obtained by multiplying the output by 0
    "inf-scalar": ("lambda x: onp.inf", "scalar"), "log-mask": ("lambda x: onp.array([0.0, -onp.inf, 0.0])", "array"),
    "nan-entry": ("lambda x: onp.array([1.0, onp.nan])", "array"), "container-with-inf": ("lambda x: ab.tuple((onp.inf, onp.array([-onp.inf, 2.0])))", "container"),
}
OPERATORS = ["grad", "value_and_grad", "elementwise_grad", "jacobian", "make_vjp", "make_jvp", "deriv", "hessian", "make_hvp", "grad-of-grad",
             "holomorphic_grad", "grad_and_aux", "tensor_jacobian_product", "hessian_tensor_product", "make_vjp-reused", "grad-reused"]


def _scribble(v):
    if isinstance(v, dict):
        for e in v.values():
            _scribble(e)
    elif isinstance(v, (tuple, list)):
        for e in v:
            _scribble(e)
    elif isinstance(v, onp.ndarray) and v.flags.writeable:
        v[...] = 7.0


def const_factory(quick, seed):
    L = lib()
    ag, np, ab, vspace = L["ag"], L["np"], L["ab"], L["vspace"]
    K = onp.array([0.25, 0.5])

    def h(ch):
        fname = ch.choose("function", sorted(CONST_FNS))
        aname = ch.choose("argument", sorted(ARGS))
        op = ch.choose("operator", OPERATORS)
        src, outkind = CONST_FNS[fname]
        x = ARGS[aname]
        AA, BB = onp.arange(6.0).reshape(3, 2) + 1.0, -onp.ones((3, 2))
        if fname in ("where-condition", "where-condition-array", "floor-then-smooth"):
            if aname not in ("float", "npfloat", "array0d", "array"):
                raise Skip("the condition must broadcast against the (3,2) branches")
        f = eval(src, dict(np=np, onp=onp, ab=ab, K=K, Z=0.3, AA=AA, BB=BB))
        arr_arg = isinstance(x, (onp.ndarray, float, complex, onp.generic))
        real_arg = arr_arg and not onp.iscomplexobj(x)
        res = None
        with warnings.catch_warnings():
            warnings.simplefilter("ignore")
            try:
                if op == "grad":
                    if outkind != "scalar":
                        raise Skip("grad needs a scalar output")
                    res = ("arg", ag.grad(f)(x))
                elif op == "value_and_grad":
                    if outkind != "scalar":
                        raise Skip("")
                    v, g = ag.value_and_grad(f)(x)
                    res = ("arg", g)
                elif op == "elementwise_grad":
                    if outkind == "container":
                        res = ("arg", ag.elementwise_grad(f)(x))
                    else:
                        res = ("arg", ag.elementwise_grad(f)(x))
                elif op == "jacobian":
                    if not arr_arg or outkind == "container":
                        raise Skip("jacobian needs array in/out")
                    J = ag.jacobian(f)(x)
                    want_shape = onp.shape(f(x)) + onp.shape(x)
                    res = ("jac", J, want_shape)
                elif op == "make_vjp":
                    vjp, v = ag.make_vjp(f)(x)
                    res = ("arg", vjp(vspace(v).ones()))
                elif op == "make_vjp-reused":
                    # the caller owns each result: overwriting the first one must not show in the second
                    vjp, v = ag.make_vjp(f)(x)
                    _scribble(vjp(vspace(v).ones()))
                    res = ("arg", vjp(vspace(v).ones()))
                elif op == "grad-reused":
                    if outkind != "scalar":
                        raise Skip("")
                    gf = ag.grad(f)
                    _scribble(gf(x))
                    res = ("arg", gf(x))
                elif op == "make_jvp":
                    v, t = ag.make_jvp(f)(x)(vspace(x).ones())
                    res = ("out", t, v)
                elif op == "deriv":
                    if not arr_arg:
                        raise Skip("")
                    res = ("out", ag.deriv(f)(x), f(x))
                elif op == "hessian":
                    if not (real_arg and outkind == "scalar"):
                        raise Skip("")
                    H = ag.hessian(f)(x)
                    res = ("jac", H, onp.shape(x) + onp.shape(x))
                elif op == "make_hvp":
                    if not (real_arg and outkind == "scalar"):
                        raise Skip("")
                    hvp, g = ag.make_hvp(f)(x)
                    res = ("arg", hvp(vspace(x).ones()))
                elif op == "grad-of-grad":
                    if not (isinstance(x, float) and outkind == "scalar"):
                        raise Skip("")
                    res = ("arg", ag.grad(ag.grad(f))(x))
                elif op == "holomorphic_grad":
                    if not (arr_arg and onp.iscomplexobj(x) and outkind == "scalar"):
                        raise Skip("")
                    res = ("arg", ag.holomorphic_grad(f)(x))
                elif op == "grad_and_aux":
                    if outkind != "scalar":
                        raise Skip("")
                    g, aux = ag.grad_and_aux(lambda x: (f(x), 7.0))(x)
                    res = ("arg", g) if aux == 7.0 else ("bad-aux", aux)
                elif op == "tensor_jacobian_product":
                    if not (real_arg and outkind in ("scalar", "array")):
                        raise Skip("")
                    out = f(x)
                    r = ag.tensor_jacobian_product(f)(x, onp.ones(onp.shape(out)))
                    res = ("arg", r)
                elif op == "hessian_tensor_product":
                    if not (real_arg and outkind == "scalar"):
                        raise Skip("")
                    res = ("arg", ag.hessian_tensor_product(f)(x, onp.ones(onp.shape(x))))
            except Skip:
                raise
            except Exception as e:
                res = ("exc", "%s: %s" % (type(e).__name__, str(e)[:100]))
        return fname, aname, op, x, res

    def judge(ch, out):
        fname, aname, op, x, res = out
        feats = dict(function=fname, argument=aname, operator=op)
        ok, why = True, None
        if res[0] == "exc":
            ok, why = False, res[1]
        elif res[0] == "bad-aux":
            ok, why = False, "aux value changed: %r" % (res[1],)
        elif res[0] == "arg":
            g = res[1]
            if not is_exact_zero(g):
                ok, why = False, "not an exact zero: %r" % (g,)
            else:
                try:
                    if not (vspace_of(g) == vspace_of(x)):
                        ok, why = False, "zero lives in %r, argument in %r" % (vspace_of(g), vspace_of(x))
                except Exception as e:
                    ok, why = False, "no vspace for result: %s" % e
        elif res[0] == "out":
            t, v = res[1], res[2]
            if not is_exact_zero(t):
                ok, why = False, "tangent not an exact zero: %r" % (t,)
            elif not (vspace_of(t) == vspace_of(v)):
                ok, why = False, "zero tangent lives in %r, output in %r" % (vspace_of(t), vspace_of(v))
        elif res[0] == "jac":
            J, shape = res[1], res[2]
            if not (is_exact_zero(J) and onp.shape(J) == tuple(shape)):
                ok, why = False, "jacobian %r, expected zeros%r" % (J, tuple(shape))
        v = None
        if not ok:
            v = violation(PROP, "const", op, "fwd" if op in ("make_jvp", "deriv") else "rev", "not-exact-zero" if not why.split(":")[0].endswith("Error") else "raised",
                          feats, ch.choices, dict(function=CONST_FNS[fname][0], argument=aname, operator=op), why, "exact zero in the argument's/output's space",
                          "import autograd, autograd.numpy as np, numpy as onp, autograd.builtins as ab\nf = %s  # operator %s on argument %r" % (CONST_FNS[fname][0], op, x))
        return dict(v=v, nontrivial=aname not in ("float",), outcome=(op, aname, ok), counts={},
                    sample=dict(choices=list(ch.choices), function=CONST_FNS[fname][0], argument=aname, operator=op, result=repr(res[1])[:80]))

    return h, judge


def vspace_of(v):
    return lib()["vspace"](v)


# ------------------------------------------------------------------ the non-differentiable function set

UN = ["floor", "ceil", "round", "rint", "around", "fix", "trunc", "sign", "logical_not", "isfinite", "isinf", "isnan", "isneginf", "isposinf",
      "iscomplex", "isreal", "zeros_like", "ones_like", "nonzero", "flatnonzero", "count_nonzero", "argwhere", "argsort", "all", "any", "ndim",
      "shape", "size", "isscalar", "iscomplexobj", "result_type", "argmax", "argmin"]
AX = ["argmax", "argmin", "argsort", "all", "any", "count_nonzero"]
BIN = ["floor_divide", "logical_and", "logical_or", "logical_xor", "allclose", "isclose", "array_equal", "array_equiv", "greater", "greater_equal",
       "less", "less_equal", "equal", "not_equal"]
METHODS = ["x.argmax()", "x.argmin()", "x.argsort()", "x.all()", "x.any()", "x.nonzero()", "x.round()", "x.round(1)", "x.shape", "x.ndim", "x.size",
           "x.dtype", "len(x)", "x > y", "x >= y", "x < y", "x <= y", "x == y", "x != y", "y > x", "y >= x", "y <= x", "y < x", "0.5 >= x", "0.5 <= x",
           "x >= 0.5", "x <= 0.5", "bool(x[0] > 0.5)", "ab.isinstance(x, onp.ndarray)",
           "ab.isinstance(x, float)", "ab.type(x)", "x.argpartition(0)", "x.searchsorted(0.5)", "np.argpartition(x, 0)", "np.searchsorted(np.sort(x), 0.5)",
           "np.searchsorted(x, y)", "int(np.argmax(x))", "x.argmax(axis=0)", "np.round(x, 2)", "np.around(x, decimals=1)"]


def nograd_factory(quick, seed):
    L = lib()
    ag, np, ab, isbox = L["ag"], L["np"], L["ab"], L["isbox"]
    shapes = [(3,), (2, 3), ()] if quick else [(3,), (2, 3), (), (1,), (2, 2, 2)]

    def h(ch):
        kind = ch.choose("kind", ["unary", "axis", "binary", "method"])
        shape = ch.choose("shape", shapes)
        n = int(onp.prod(shape))
        x = (onp.modf((onp.arange(n) + 1 + seed) * 0.6180339887)[0] * 4 - 2).reshape(shape)
        y = (onp.modf((onp.arange(n) + 2) * 0.7548776662)[0] * 4 - 2).reshape(shape)
        if ch.flag("special_values"):
            # NaN, infinities, signed zero and exact ties with the other operand: where "piecewise constant" is decided
            sv = onp.array([onp.nan, onp.inf, -onp.inf, -0.0, 0.0, 1.0])
            x = x.copy()
            xf = x.reshape(-1)
            for i_ in range(xf.size):
                xf[i_] = sv[(i_ + (seed % 6)) % 6] if i_ % 2 == 0 else y.reshape(-1)[i_]
            x = xf.reshape(shape)
        if kind == "unary":
            expr = "np.%s(x)" % ch.choose("fn", UN)
        elif kind == "axis":
            if not shape:
                raise Skip("")
            fn = ch.choose("fn", AX)
            ax = ch.choose("axis", list(range(-len(shape), len(shape))))
            expr = "np.%s(x, axis=%d)" % (fn, ax)
        elif kind == "binary":
            fn = ch.choose("fn", BIN)
            form = ch.choose("operands", ["x, y", "y, x", "x, 0.5", "0.5, x", "x, x"])
            expr = "np.%s(%s)" % (fn, form)
        else:
            expr = ch.choose("expr", METHODS)
        mode = ch.choose("mode", ["vjp", "jvp", "nested", "mixed-rr", "mixed-fr", "mixed-rf"])
        if mode.startswith("mixed") and not __import__("re").search(r"\by\b", expr):
            raise Skip("single operand")
        ns_np = dict(np=onp, onp=onp, x=x, y=y, ab=_PlainBuiltins)
        try:
            with warnings.catch_warnings(), onp.errstate(all="ignore"):
                warnings.simplefilter("ignore")
                want = eval(expr, ns_np)
        except Exception:
            raise Skip("NumPy rejects")
        got = {}

        def f(xx, yy=y):
            r = eval(expr, dict(np=np, onp=onp, x=xx, y=yy, ab=ab))
            got["r"] = r
            return np.sum(xx * 1.0)

        with warnings.catch_warnings():
            warnings.simplefilter("ignore")
            try:
                if mode == "vjp":
                    ag.make_vjp(f)(x)
                elif mode == "jvp":
                    ag.make_jvp(f)(x)(onp.ones(shape))
                elif mode.startswith("mixed"):
                    # the two operands are variables of DIFFERENT nesting levels (y: enclosing differentiation, x: inner one)
                    inner_op = (lambda fn, p: ag.grad(fn)(p)) if mode[-1] == "r" else (lambda fn, p: ag.make_jvp(fn)(p)(onp.ones(shape))[1])
                    body = lambda a: np.sum(inner_op(lambda b: f(b, a) * np.sum(a * a), x))
                    if mode[-2] == "r":
                        ag.grad(body)(y)
                    else:
                        ag.make_jvp(body)(y)(onp.ones(shape))
                else:
                    ag.grad(lambda a: np.sum(ag.grad(lambda b: f(b) * np.sum(a))(a)))(x)
            except Exception as e:
                got["exc"] = "%s: %s" % (type(e).__name__, str(e)[:100])
        return expr, mode, want, got

    def judge(ch, out):
        expr, mode, want, got = out
        feats = dict(expr=expr.split("(")[0], mode=mode)
        v = None
        repro = "import autograd, autograd.numpy as np, numpy as onp, autograd.builtins as ab  # inside a traced function: %s" % expr
        V = lambda kind, g: violation(PROP, "nograd", expr.split("(")[0], mode, kind, feats, ch.choices, dict(expr=expr), g, repr(want)[:200], repro)
        if "exc" in got:
            v = V("raised", got["exc"])
        elif "r" not in got:
            v = V("not-evaluated", None)
        else:
            r = got["r"]
            if _contains_box(r, isbox):
                v = V("returns-tracer", repr(type(r)))
            elif not _same(r, want):
                v = V("differs-from-numpy", repr(r)[:200])
        return dict(v=v, nontrivial=True, outcome=(expr.split("(")[0], type(want).__name__), counts={},
                    sample=dict(choices=list(ch.choices), expr=expr, mode=mode, numpy_result=repr(want)[:60]))

    return h, judge


class _PlainBuiltins:
    isinstance = staticmethod(isinstance)
    type = staticmethod(type)


def _contains_box(v, isbox):
    if isinstance(v, (tuple, list)):
        return any(_contains_box(x, isbox) for x in v)
    return isbox(v)


def _same(a, b):
    if isinstance(b, (tuple, list)):
        return isinstance(a, (tuple, list)) and len(a) == len(b) and all(_same(x, y) for x, y in zip(a, b))
    if isinstance(b, onp.ndarray):
        return isinstance(a, onp.ndarray) and a.shape == b.shape and a.dtype == b.dtype and bool(onp.array_equal(a, b, equal_nan=(b.dtype.kind in "fc")))
    if isinstance(b, (type, onp.dtype)):
        return a == b
    try:
        return type(a) == type(b) and (bool(a == b) or (isinstance(b, (float, onp.floating)) and bool(onp.isnan(a)) and bool(onp.isnan(b))))
    except Exception:
        return False


# ------------------------------------------------------------------ compositions

H = ["np.floor(x)", "np.ceil(x)", "np.sign(x)", "np.round(x)", "np.trunc(x)", "(x > 0.3)", "np.argmax(x)", "np.floor_divide(x, 0.7)", "np.rint(x)",
     "np.count_nonzero(x > 0)", "x.shape[0]", "np.isfinite(x)", "np.logical_and(x > 0, x < 1)", "np.fix(x)",
     # conversions to an integer / boolean dtype are piecewise constant as well
     "x.astype(int)", "x.astype('int32') * 1.0", "x.astype(bool)", "np.sum(x.reshape(1, -1), axis=0, dtype=int)"]


def compose_factory(quick, seed):
    L = lib()
    ag, np = L["ag"], L["np"]

    def h(ch):
        hx = ch.choose("h", H)
        comp = ch.choose("composition", ["x * HH", "HH * x", "HH + x", "x ** 2 * HH", "np.where(HH > 0, x, 0.25)", "np.sin(x) * HH - HH"])
        mode = ch.choose("mode", ["rev", "fwd"])
        x = onp.array([0.37, -1.45, 2.61]) + 0.013 * (seed % 7)
        src = comp.replace("HH", "(" + hx + ")")
        f = eval("lambda x: " + src, dict(np=np))
        hv = onp.asarray(eval(hx, dict(np=onp, x=x)), dtype=float)
        hv = onp.broadcast_to(hv, x.shape)
        want = {"x * HH": hv, "HH * x": hv, "HH + x": onp.ones(3), "x ** 2 * HH": 2 * x * hv, "np.where(HH > 0, x, 0.25)": (hv > 0) * 1.0,
                "np.sin(x) * HH - HH": onp.cos(x) * hv}[comp]
        with warnings.catch_warnings():
            warnings.simplefilter("ignore")
            try:
                if mode == "rev":
                    got = onp.asarray(ag.elementwise_grad(f)(x))
                else:
                    got = onp.array([onp.asarray(ag.make_jvp(f)(x)(e)[1])[i] for i, e in enumerate(onp.eye(3))])
            except NotImplementedError as e:
                got = None          # a missing forward rule (e.g. astype has none): a loud failure, not this property's subject
            except Exception as e:
                got = "%s: %s" % (type(e).__name__, str(e)[:100])
        return src, mode, got, want, hx

    def judge(ch, out):
        src, mode, got, want, hx = out
        v = None
        if got is None:
            return dict(v=None, nontrivial=False, outcome="no-rule", counts={"no-forward-rule": 1}, sample=dict(choices=list(ch.choices), f="lambda x: " + src, mode=mode))
        if isinstance(got, str) or got.shape != want.shape or not onp.all(onp.abs(got - want) <= 1e-14 * (1 + onp.abs(want))):
            v = violation(PROP, "compose", "-", mode, "raised" if isinstance(got, str) else "wrong-derivative", dict(mode=mode, h=hx), ch.choices, dict(f="lambda x: " + src),
                          got if isinstance(got, str) else got.tolist(), want.tolist(), "import autograd, autograd.numpy as np\nf = lambda x: %s" % src)
        return dict(v=v, nontrivial=True, outcome=tuple(onp.round(want, 6)), counts={}, sample=dict(choices=list(ch.choices), f="lambda x: " + src, mode=mode, expected=want.tolist()))

    return h, judge


def nested_factory(quick, seed):
    """An inner differentiation whose output does not depend on ITS variable (but does depend on an enclosing, traced one)
    must give an exact zero - in every mode combination and operator spelling."""
    L = lib()
    ag, np = L["ag"], L["np"]
    INNER = {"grad": lambda f, y: ag.grad(f)(y), "deriv": lambda f, y: ag.deriv(f)(y), "vjp": lambda f, y: ag.make_vjp(f)(y)[0](1.0),
             "jvp": lambda f, y: ag.make_jvp(f)(y)(1.0)[1], "egrad": lambda f, y: ag.elementwise_grad(f)(y), "jac": lambda f, y: ag.jacobian(f)(y)}
    OUTER = {"grad": lambda F, x: ag.grad(F)(x), "deriv": lambda F, x: ag.deriv(F)(x), "vag": lambda F, x: ag.value_and_grad(F)(x)[1]}
    BODY = {"x**2": lambda x, y: x ** 2, "sin(x)*3": lambda x, y: np.sin(x) * 3.0, "x": lambda x, y: x, "x*floor(y)": lambda x, y: x * np.floor(y),
            "where(y>0, x, -x)": lambda x, y: np.where(y > 0, x, -x), "x + 0*K": lambda x, y: x + 0.0}

    def h(ch):
        inner = ch.choose("inner", sorted(INNER))
        outer = ch.choose("outer", sorted(OUTER))
        body = ch.choose("body", sorted(BODY))
        depth3 = ch.flag("depth3")
        y0 = ch.choose("y0", [5.0, -0.5])
        x0 = 1.5 + 0.01 * (seed % 7)
        got = {}

        def F(x):
            dz = INNER[inner](lambda y: BODY[body](x, y), y0)
            got["inner"] = dz
            if depth3:
                dz = dz + INNER[inner](lambda y: INNER["grad"](lambda z: BODY[body](x, y) * 1.0, 0.3), y0)
            return 3.0 * x + dz * x

        with warnings.catch_warnings():
            warnings.simplefilter("ignore")
            try:
                r = OUTER[outer](F, x0)
                iv = got.get("inner")
                while hasattr(iv, "_value"):
                    iv = iv._value
                return inner, outer, body, (float(r), float(iv))
            except Exception as e:
                return inner, outer, body, "%s: %s" % (type(e).__name__, str(e)[:100])

    def judge(ch, out):
        inner, outer, body, got = out
        ok = not isinstance(got, str) and got[0] == 3.0 and got[1] == 0.0
        v = None
        if not ok:
            v = violation(PROP, "nested", inner, "fwd" if inner in ("deriv", "jvp") else "rev", "raised" if isinstance(got, str) else "not-exact-zero",
                          dict(inner=inner, outer=outer), ch.choices, dict(inner=inner, outer=outer, body=body), got, [3.0, 0.0],
                          "# d/dx [3x + x * D_y(%s)(y0)] must be exactly 3 and the inner derivative exactly 0 (inner operator %s, outer %s)" % (body, inner, outer))
        return dict(v=v, nontrivial=True, outcome=(inner, outer, body), counts={}, sample=dict(choices=list(ch.choices), inner=inner, outer=outer, body=body, observed=repr(got)))

    return h, judge


HARNESSES = {"const": const_factory, "nograd": nograd_factory, "compose": compose_factory, "nested": nested_factory}


def run(ctx):
    rep = Report("exploration")
    run_harnesses(ctx, rep, __name__, ["const", "nograd", "compose", "nested"], depth=2)
    rep.add(rule="const: (constant function, argument kind, operator); nograd: (call of a non-differentiable export on a traced value, "
                 "shape, mode); compose: (h, composition, mode); non-trivial = non-float argument / any nograd or compose leaf")
    rep.assumptions = ["finite alphabets of constant functions (%d), argument kinds (%d), operators (%d), non-differentiable calls (%d)" % (
        len(CONST_FNS), len(ARGS), len(OPERATORS), len(UN) + len(AX) + len(BIN) + len(METHODS))]
    return rep


def replay(ctx, v):
    return replay_generic(__name__, ctx, v)
