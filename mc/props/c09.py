"""C09 - complex differentiation follows the documented convention (catalogue walk with complex operands + corollaries)."""
import collections
import warnings

import numpy as onp

from .. import judges as J
from .. import oracles as O
from .. import walk as W
from ..catalog.base import Tier
from ..findings import violation
from ..par import replay_generic, run_harnesses
from ..runner import Report

PROP = "C09"


def judge_c09(prop, spec_name, ch, case, which, res):
    cplx_involved = any(onp.iscomplexobj(v) for v in case.ops.values()) or onp.iscomplexobj(O.realify(res["np_val"])) or \
        _has_complex(res["np_val"])
    a = J._jac_verdict(prop, spec_name, ch, case, which, res, "rev")
    b = J._jac_verdict(prop, spec_name, ch, case, which, res, "fwd")
    counts = collections.Counter()
    for d, m in ((a, "rev"), (b, "fwd")):
        for k, c in d["counts"].items():
            counts[m + ":" + k] += c
    vs = [d["v"] for d in (a, b) if d["v"]]
    if not cplx_involved:
        counts["real-only-leaf"] += 1
    return dict(v=vs, nontrivial=bool(cplx_involved and (a["nontrivial"] or b["nontrivial"])), outcome=(a["outcome"], b["outcome"]),
                counts=counts, sample=a["sample"] or b["sample"])


def _has_complex(v):
    if isinstance(v, (tuple, list)):
        return any(_has_complex(x) for x in v)
    return onp.iscomplexobj(v)


def _table():
    specs = J.load_catalog()
    table = {}
    for name, (fn, fam) in specs.items():
        def factory(quick, seed, name=name, fn=fn):
            return W.make_harness(name, fn, Tier(quick, seed, cplx=True, reduced=quick), ("num", "rev", "fwd"), judge_c09, PROP)
        table["cat:" + name] = factory
    table["corollaries"] = corollaries_factory
    return table


# ----------------------------------------------------------------- corollaries stated in the property

def corollaries_factory(quick, seed):
    import autograd
    import autograd.numpy as np
    HOLO = {"exp": (np.exp, lambda z: onp.exp(z)), "sin": (np.sin, lambda z: onp.cos(z)), "square": (np.square, lambda z: 2 * z),
            "z3": (lambda z: z ** 3, lambda z: 3 * z ** 2), "recip": (lambda z: 1.0 / z, lambda z: -1.0 / z ** 2),
            "poly": (lambda z: (1 + 2j) * z * z + z, lambda z: (2 + 4j) * z + 1), "log": (np.log, lambda z: 1 / z),
            "tanh": (np.tanh, lambda z: 1 / onp.cosh(z) ** 2), "sqrt": (np.sqrt, lambda z: 0.5 / onp.sqrt(z))}
    pts = [0.7 + 0.4j, -0.3 + 1.1j, 1.2 - 0.5j]

    def h(ch):
        kind = ch.choose("corollary", ["holomorphic", "real-loss", "fft-roundtrip"])
        with warnings.catch_warnings():
            warnings.simplefilter("ignore")
            if kind == "holomorphic":
                name = ch.choose("fn", sorted(HOLO))
                z = ch.choose("z", pts) + 0.01 * (seed % 7)
                op = ch.choose("operator", ["holomorphic_grad", "grad-of-real-part", "deriv"])
                f, df = HOLO[name]
                if op == "holomorphic_grad":
                    got = autograd.holomorphic_grad(f)(z)
                elif op == "grad-of-real-part":
                    got = autograd.grad(lambda w: np.real(f(w)))(z)
                else:
                    got = autograd.make_jvp(f)(z)(1.0 + 0j)[1]
                return kind, (name, z, op), complex(got), complex(df(z))
            if kind == "real-loss":
                name = ch.choose("loss", ["abs2", "re*im", "abs", "sum|z|^2+re"])
                z = onp.array([ch.choose("z", pts) + 0.01 * (seed % 7), 0.4 - 0.9j])
                L = {"abs2": lambda w: np.sum(np.real(w * np.conj(w))), "re*im": lambda w: np.sum(np.real(w) * np.imag(w)),
                     "abs": lambda w: np.sum(np.abs(w)), "sum|z|^2+re": lambda w: np.sum(np.abs(w) ** 2 + np.real(w))}[name]
                Ln = {"abs2": lambda w: onp.sum((w * onp.conj(w)).real), "re*im": lambda w: onp.sum(w.real * w.imag),
                      "abs": lambda w: onp.sum(onp.abs(w)), "sum|z|^2+re": lambda w: onp.sum(onp.abs(w) ** 2 + w.real)}[name]
                got = autograd.grad(L)(z)
                Jn, _ = O.numjac(Ln, z)          # 1 x 4 real Jacobian: (dL/dx, dL/dy) per entry
                ascent = Jn[0].reshape(-1, 2)
                want = ascent[:, 0] - 1j * ascent[:, 1]     # conjugate of the steepest-ascent direction dL/dx + i dL/dy
                return kind, (name, z.tolist()), onp.asarray(got), want
            # real -> complex -> real pipeline must equal the purely real program
            name = ch.choose("pipeline", ["irfft(rfft(x))", "real(ifft(fft(x)))", "sum|fft(x)|^2", "real(ifft(fft(x)*fft(k)))"])
            n = ch.choose("n", [4, 6])
            x = O.fill((n,), 1, seed=seed)
            k = O.fill((n,), 2, seed=seed)
            w = O.fill((n,), 3, seed=seed)
            P = {"irfft(rfft(x))": lambda v: np.sum(w * np.fft.irfft(np.fft.rfft(v))),
                 "real(ifft(fft(x)))": lambda v: np.sum(w * np.real(np.fft.ifft(np.fft.fft(v)))),
                 "sum|fft(x)|^2": lambda v: np.sum(np.abs(np.fft.fft(v)) ** 2),
                 "real(ifft(fft(x)*fft(k)))": lambda v: np.sum(w * np.real(np.fft.ifft(np.fft.fft(v) * np.fft.fft(k))))}[name]
            circ = onp.array([[k[(i - j) % n] for j in range(n)] for i in range(n)])
            want = {"irfft(rfft(x))": w, "real(ifft(fft(x)))": w, "sum|fft(x)|^2": 2 * n * x,
                    "real(ifft(fft(x)*fft(k)))": circ.T @ w}[name]
            return kind, (name, n), onp.asarray(autograd.grad(P)(x)), want

    def judge(ch, out):
        kind, cfg, got, want = out
        err = float(onp.max(onp.abs(onp.asarray(got) - onp.asarray(want)) / (1 + onp.abs(onp.asarray(want)))))
        ok = err <= 1e-7 and onp.iscomplexobj(got) == onp.iscomplexobj(want)
        v = None
        if not ok:
            v = violation(PROP, "corollaries", str(cfg[0]), "rev", "corollary-" + kind, dict(corollary=kind, case=cfg[0]), ch.choices,
                          ch.decoded(), repr(got), repr(want), "corollary %s %r" % (kind, cfg))
        return dict(v=v, nontrivial=True, outcome=(kind, cfg[0]), counts={kind: 1},
                    sample=dict(choices=list(ch.choices), corollary=kind, case=repr(cfg), got=repr(got)[:80], want=repr(want)[:80]))

    return h, judge


HARNESSES = _table()


def run(ctx):
    rep = Report("exploration")
    run_harnesses(ctx, rep, __name__, list(HARNESSES), depth=3)
    per = rep.cov["per_harness"]
    tot = collections.Counter()
    for d in per.values():
        tot.update(d["counts"])
    rep.cov["outcome_totals"] = dict(tot)
    rep.add(rule="catalogue walk with every real/complex operand pattern (c, cr, rc); both modes compared with the numerical real "
                 "Jacobian J_R of the realification: reverse rows = (C_out J_R C_in), forward columns = J_R; non-trivial = a complex "
                 "operand or result and a non-zero Jacobian; plus holomorphic / real-loss / FFT round-trip corollaries vs closed forms",
            bound="as C01; complex operand patterns c/cr/rc")
    rep.assumptions = ["finite point alphabet", "J_R by 6th-order Richardson differences of plain NumPy, trust-tested, tolerance 1e-6",
                       "calls NumPy rejects for complex operands are outside the space"]
    return rep


def replay(ctx, v):
    return replay_generic(__name__, ctx, v)
