"""C08 - no perturbation confusion: all nested-operator terms up to a depth, against the symbolic reference.

A term of depth d has variables x0..x_{d-1}.  Level k (0 = outermost) has the body

    B_{d-1}        = F(S_{d-1})                                   S_k subset of {x0..xk}
    B_k            = combine_k( F(S_k), D_{k+1}[x_{k+1} -> B_{k+1}](pt_k) )

and the observed quantity is D_0[x0 -> B_0](x0val).  D_k is a reverse- or forward-mode operator.
Everything enumerated: depth, mode per level, operator spelling, closure subset per level (including
subsets *without* the level's own variable), evaluation point kind per level, operand order, point.
The term is rendered to Python source, evaluated with autograd by eval(), and mirrored symbolically.
"""
import itertools
import warnings

from .. import symref as S
from ..par import run_harness, replay_generic
from ..findings import violation
from ..runner import Report

PROP = "C08"

REV_OPS = ["grad", "vjp", "vag", "egrad", "jac"]
FWD_OPS = ["deriv", "jvp"]

_NS = None


def _ns():
    global _NS
    if _NS is None:
        import autograd
        import autograd.numpy as np
        ns = dict(np=np, sin=np.sin)
        ns["grad"] = autograd.grad
        ns["deriv"] = autograd.deriv
        ns["egrad"] = autograd.elementwise_grad
        ns["jac"] = lambda f: (lambda x: autograd.jacobian(f)(x) * 1.0)
        ns["vjp"] = lambda f: (lambda x: autograd.make_vjp(f)(x)[0](1.0))
        ns["vag"] = lambda f: (lambda x: autograd.value_and_grad(f)(x)[1])
        ns["jvp"] = lambda f: (lambda x: autograd.make_jvp(f)(x)(1.0)[1])
        _NS = ns
    return _NS


def _np():
    import numpy
    return numpy


def subsets(k):
    vs = list(range(k + 1))
    out = []
    for r in range(len(vs) + 1):
        out += list(itertools.combinations(vs, r))
    # put "own variable only" first (the plain textbook case), the empty body next
    out.sort(key=lambda s: (s != (k,), len(s), s))
    return out


def coef(v, k):
    return 1.0 + 0.5 * v + 0.25 * k


def factor_src(Sk, k):
    if not Sk:
        return "2.0"
    return " * ".join("(sin(%r * x%d) + 1.5)" % (coef(v, k), v) for v in Sk)


def factor_sym(Sk, k):
    out = S.Const(2.0) if not Sk else None
    for v in Sk:
        t = S.sin(coef(v, k) * S.Var("x%d" % v)) + 1.5
        out = t if out is None else out * t
    return out


def point_kinds(k, quick):
    ks = ["const", "own", "prod"]
    if k >= 1:
        ks.append("outer0")
    return ks


def point_src(kind, k, vector=False):
    if kind == "const":
        # vector variant: a constant ARRAY point, so that the inner function still maps (2,) -> (2,) element-wise
        return repr(1.3 - 0.2 * k) if not vector else "np.array([%r, %r])" % (1.3 - 0.2 * k, 1.3 - 0.2 * k + 0.21)
    if kind == "own":
        return "x%d" % k
    if kind == "outer0":
        return "x0"
    return " * ".join("x%d" % i for i in range(k + 1)) + " * x%d" % k


def point_sym(kind, k, comp=0):
    if kind == "const":
        return S.Const(1.3 - 0.2 * k + 0.21 * comp)
    if kind == "own":
        return S.Var("x%d" % k)
    if kind == "outer0":
        return S.Var("x0")
    e = None
    for i in list(range(k + 1)) + [k]:
        e = S.Var("x%d" % i) if e is None else e * S.Var("x%d" % i)
    return e


def build(ch, tier_quick, seed):
    """Make all choices of one term; returns a dict describing it."""
    depth = ch.choose("depth", [2, 3])
    modes = [ch.choose("mode%d" % k, ["rev", "fwd"]) for k in range(depth)]
    reduced = tier_quick and depth == 3
    # operator spelling: at most one level deviates from the default spelling
    variants = [None]
    if not reduced:
        for k in range(depth):
            alts = REV_OPS[1:] if modes[k] == "rev" else FWD_OPS[1:]
            variants += [(k, a) for a in alts]
    var = ch.choose("opvariant", variants)
    ops = [("grad" if m == "rev" else "deriv") for m in modes]
    if var is not None:
        ops[var[0]] = var[1]
    Ss = [ch.choose("S%d" % k, subsets(k)) for k in range(depth)]
    pts = [ch.choose("pt%d" % k, point_kinds(k, tier_quick)) for k in range(depth - 1)]
    orders = [ch.choose("order%d" % k, [0] if reduced else [0, 1]) for k in range(depth - 1)]
    base = [0.7, -1.1, 0.35]
    xs = base[:1] if reduced else base[:2]
    # 0.0 exactly: intermediate tangents / cotangents are then zero-VALUED while still depending on the enclosing variable
    x0 = ch.choose("x0", xs + [0.0])
    x0 = x0 + (0.013 * (seed % 17) if x0 != 0.0 else 0.0)
    # the same term on a (2,) array: every op is element-wise, so each component must equal the scalar term at that value
    # (a constant evaluation point becomes a constant (2,) array; component i then uses its i-th entry)
    # a result that does not depend on x0 at all is a scalar zero of the (scalar) output's space: compared by broadcasting
    vector = var is None and ch.flag("vector_valued")
    if vector:
        ops = [("egrad" if m == "rev" else "deriv") for m in modes]
    return dict(depth=depth, modes=modes, ops=ops, S=Ss, pts=pts, orders=orders, x0=x0, vector=vector)


def render(t):
    d = t["depth"]

    def body(k):
        fac = factor_src(t["S"][k], k)
        if k == d - 1:
            return fac
        inner = "%s(lambda x%d: %s)(%s)" % (t["ops"][k + 1], k + 1, body(k + 1), point_src(t["pts"][k], k, bool(t.get("vector"))))
        return "(%s) * %s" % (fac, inner) if t["orders"][k] == 0 else "%s * (%s)" % (inner, fac)

    arg = repr(t["x0"]) if not t.get("vector") else "np.array([%r, %r])" % (t["x0"], t["x0"] + 0.37)
    return "%s(lambda x0: %s)(%s)" % (t["ops"][0], body(0), arg)


def reference(t):
    d = t["depth"]

    def body(k, comp):
        fac = factor_sym(t["S"][k], k)
        if k == d - 1:
            return fac
        inner = body(k + 1, comp).d("x%d" % (k + 1)).sub("x%d" % (k + 1), point_sym(t["pts"][k], k, comp))
        return fac * inner if t["orders"][k] == 0 else inner * fac

    if t.get("vector"):
        return [body(0, 0).d("x0").ev({"x0": t["x0"]}), body(0, 1).d("x0").ev({"x0": t["x0"] + 0.37})]
    return body(0, 0).d("x0").ev({"x0": t["x0"]})


def harness_factory(quick, seed):
    def h(ch):
        t = build(ch, quick, seed)
        src = render(t)
        want = reference(t)
        with warnings.catch_warnings():
            warnings.simplefilter("ignore")
            try:
                got = eval(src, _ns())
                got = float(got) if not t.get("vector") else [float(v) for v in _np().asarray(got).reshape(-1)]
            except Exception as e:  # every term is a supported program: raising is a violation too
                return t, src, want, ("EXC", type(e).__name__, str(e)[:120])
        return t, src, want, got

    return h, judge


def judge(ch, out):
    t, src, want, got = out
    feats = dict(depth=t["depth"], modes="".join(m[0] for m in t["modes"]),
                 own_var_missing=",".join(str(k) for k in range(t["depth"]) if k not in t["S"][k]) or "none")
    # non-trivial: some inner level closes over an outer variable, or omits its own
    nontriv = any((set(t["S"][k]) - {k}) or (k not in t["S"][k]) for k in range(1, t["depth"]))
    res = dict(v=None, nontrivial=nontriv, outcome=round(want if not isinstance(want, list) else want[0], 9),
               sample=dict(choices=list(ch.choices), source=src, expected=want, observed=got))
    repro = ("import warnings; warnings.simplefilter('ignore')\nimport autograd, autograd.numpy as np\n"
             "from autograd import grad, deriv, elementwise_grad as egrad\nsin = np.sin\n"
             "jac = lambda f: (lambda x: autograd.jacobian(f)(x) * 1.0)\n"
             "vjp = lambda f: (lambda x: autograd.make_vjp(f)(x)[0](1.0))\n"
             "vag = lambda f: (lambda x: autograd.value_and_grad(f)(x)[1])\n"
             "jvp = lambda f: (lambda x: autograd.make_jvp(f)(x)(1.0)[1])\n"
             "print(%s, 'expected', %r)\n" % (src, want))
    if isinstance(got, tuple):
        res["v"] = violation(PROP, "nest", "-", feats["modes"], "raised", feats, ch.choices, ch.decoded(), got, want, repro)
    elif (isinstance(want, list) and (not isinstance(got, list) or len(got) not in (1, len(want))
                                      or not all(abs(a - b) <= 1e-9 * (1 + abs(b)) for a, b in zip(got * (len(want) if len(got) == 1 else 1), want)))) \
            or (not isinstance(want, list) and not abs(got - want) <= 1e-9 * (1 + abs(want))):
        res["v"] = violation(PROP, "nest", "-", feats["modes"], "wrong-value", feats, ch.choices, ch.decoded(), got, want, repro)
    return res


HARNESSES = {"nest": harness_factory}


def run(ctx):
    rep = Report("exploration")
    run_harness(ctx, rep, __name__, "nest", depth=4 if ctx.quick else 5)
    rep.add(bound="depth<=3; quick tier walks depth 3 with default operator spelling, one operand order, one point",
            rule="every nested-operator term (depth, mode per level, operator spelling, closure subset per level, "
                 "evaluation-point kind, operand order, point) is enumerated once; non-trivial = an inner body "
                 "mentions an enclosing variable or omits its own variable")
    rep.assumptions = [
        "terms are built from sin, *, + on Python floats; the symbolic reference (mc/symref.py) is trusted",
        "nesting depth <= 3; operator spellings grad/make_vjp/value_and_grad/elementwise_grad/jacobian/deriv/make_jvp",
        "comparison tolerance 1e-9 relative"]
    return rep


def replay(ctx, v):
    return replay_generic(__name__, ctx, v)
