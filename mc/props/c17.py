"""C17 - user-defined primitives obey the extension contract; checkpoint is transparent.

  contract    arity x non-empty subset of differentiated positions x registration API x trace-level assignment of each
              differentiated argument x kwargs, for p(a; k) = k (sum_i c_i a_i)^2 whose rules log their arguments
  checkpoint  every straight-line program with n <= 3 ops (the C03 graph alphabet over sin/*/+) wrapped in checkpoint:
              value and reverse derivatives of order 1..3 equal the unwrapped program's
"""
import itertools
import warnings

import numpy as onp

from ..explore import Skip
from ..findings import violation
from ..par import replay_generic, run_harnesses
from ..runner import Report
from .c03 import build_program, prog_src

PROP = "C17"
_L = {}
C = [1.0, -0.7, 1.9, 0.45, -1.3]
VALS = [0.6, 1.1, -0.4, 0.9, 0.25]


def lib():
    if not _L:
        import autograd
        import autograd.numpy as anp
        import autograd.extend as ext
        from autograd.tracer import getval
        _L.update(ag=autograd, np=anp, ext=ext, getval=getval)
    return _L


VJP_APIS = ["defvjp-all", "defvjp-none-elsewhere", "defvjp-argnums", "defvjp_argnum", "defvjp_argnums"]
JVP_APIS = ["defjvp-all", "defjvp-none-elsewhere", "defjvp_argnum", "defjvp-argnums-kw"]


def make_primitive(n, subset, api, LOG):
    """A fresh primitive of arity n registered through `api`; rules exist for the positions in `subset`."""
    L = lib()
    ext, np, getval = L["ext"], L["np"], L["getval"]
    cs = C[:n]

    @ext.primitive
    def p(*args, **kw):
        k = kw.get("k", 1.0)
        return k * sum(c * onp.sum(a) for c, a in zip(cs, args)) ** 2

    def S(args):
        tot = 0.0
        for c, a in zip(cs, args):
            tot = tot + c * np.sum(a)
        return tot

    def ones(a):
        return onp.ones(onp.shape(getval(a)))

    def fl(a):
        while hasattr(a, "_value"):
            a = a._value
        return onp.asarray(a, dtype=float).tolist()

    def log(kind, argnum, ans, args, kw):
        LOG.append((kind, argnum, fl(ans), tuple(fl(a) for a in args), dict(kw)))

    def vjp_i(i):
        def maker(ans, *args, **kw):
            log("vjp", i, ans, args, kw)
            return lambda g: g * 2.0 * kw.get("k", 1.0) * cs[i] * S(args) * ones(args[i])
        return maker

    def jvp_i(i):
        def rule(g, ans, *args, **kw):
            log("jvp", i, ans, args, kw)
            return np.sum(g) * 2.0 * kw.get("k", 1.0) * cs[i] * S(args)
        return rule

    if api == "defvjp-all":
        ext.defvjp(p, *[vjp_i(i) for i in range(n)])
    elif api == "defvjp-none-elsewhere":
        ext.defvjp(p, *[vjp_i(i) if i in subset else None for i in range(n)])
    elif api == "defvjp-argnums":
        ext.defvjp(p, *[vjp_i(i) for i in subset], argnums=tuple(subset))
    elif api == "defvjp_argnum":
        def maker(argnum, ans, args, kw):
            log("vjp", argnum, ans, args, kw)
            return lambda g: g * 2.0 * kw.get("k", 1.0) * cs[argnum] * S(args) * ones(args[argnum])
        ext.defvjp_argnum(p, maker)
    elif api == "defvjp_argnums":
        def maker(argnums, ans, args, kw):
            for a in argnums:
                log("vjp", a, ans, args, kw)
            return lambda g: tuple(g * 2.0 * kw.get("k", 1.0) * cs[a] * S(args) * ones(args[a]) for a in argnums)
        ext.defvjp_argnums(p, maker)
    elif api == "defjvp-all":
        ext.defjvp(p, *[jvp_i(i) for i in range(n)])
    elif api == "defjvp-none-elsewhere":
        ext.defjvp(p, *[jvp_i(i) if i in subset else None for i in range(n)])
    elif api == "defjvp_argnum":
        def rule(argnum, g, ans, args, kw):
            log("jvp", argnum, ans, args, kw)
            return np.sum(g) * 2.0 * kw.get("k", 1.0) * cs[argnum] * S(args)
        ext.defjvp_argnum(p, rule)
    elif api == "defjvp-argnums-kw":
        ext.defjvp(p, *[jvp_i(i) for i in subset], argnums=tuple(subset))
    return p


def contract_factory(quick, seed):
    L = lib()
    ag, np = L["ag"], L["np"]
    nmax = 3 if quick else 5

    def h(ch):
        n = ch.choose("arity", list(range(1, nmax + 1)))
        subsets = [s for r in range(1, n + 1) for s in itertools.combinations(range(n), r)]
        if n >= 4:
            subsets = [s for s in subsets if len(s) <= 2 or len(s) == n]
        registered = ch.choose("registered", subsets)
        mode = ch.choose("mode", ["rev", "fwd"])
        api = ch.choose("api", VJP_APIS if mode == "rev" else JVP_APIS)
        # which positions are actually differentiated: the registered ones, or one unregistered position in addition
        unreg = [j for j in range(n) if j not in registered]
        diff_opts = [registered] + [tuple(sorted(registered + (j,))) for j in unreg][:2] + [(j,) for j in unreg][:2]
        diff = ch.choose("differentiated", diff_opts)
        levels = ch.choose("levels", [lv for lv in itertools.product([1, 2], repeat=len(diff))][: (4 if quick else 8)]) if mode == "rev" else (1,) * len(diff)
        kw = ch.choose("kwargs", [{}, {"k": 2.5}])
        vals = [(v + 0.01 * (seed % 5)) if j % 2 == 0 else onp.array([v, v + 0.5]) for j, v in enumerate(VALS[:n])]
        size = [1 if j % 2 == 0 else 2 for j in range(n)]
        LOG = []
        p = make_primitive(n, registered, api, LOG)
        k = kw.get("k", 1.0)
        Sval = float(sum(c * onp.sum(a) for c, a in zip(C[:n], vals)))
        has_rule = lambda j: j in registered or api in ("defvjp-all", "defvjp_argnum", "defvjp_argnums", "defjvp-all", "defjvp_argnum")
        is_none = lambda j: api in ("defvjp-none-elsewhere", "defjvp-none-elsewhere") and j not in registered
        l1 = [j for j, lv in zip(diff, levels) if lv == 1]
        l2 = [j for j, lv in zip(diff, levels) if lv == 2]
        obs = {}
        with warnings.catch_warnings():
            warnings.simplefilter("ignore")
            try:
                if mode == "fwd":
                    f = lambda *xs: p(*[xs[diff.index(j)] if j in diff else vals[j] for j in range(n)], **kw)
                    val, t = ag.make_jvp(f, tuple(range(len(diff))))(*[vals[j] for j in diff])(tuple(onp.ones(onp.shape(vals[j])) if size[j] > 1 else 1.0 for j in diff))
                    obs["value"], obs["tangent"] = float(val), float(t)
                elif not l2:
                    f = lambda *xs: p(*[xs[diff.index(j)] if j in diff else vals[j] for j in range(n)], **kw)
                    if len(diff) == 1:      # plain int argnum: the rule's result is handed back without any container in between
                        val, g = ag.value_and_grad(f, 0)(vals[diff[0]])
                        g = (g,)
                    else:
                        val, g = ag.value_and_grad(f, tuple(range(len(diff))))(*[vals[j] for j in diff])
                        # the same pull-back applied twice must route the same gradients twice
                        vjp2, _ = ag.make_vjp(f, tuple(range(len(diff))))(*[vals[j] for j in diff])
                        first = [onp.asarray(x, dtype=float).tolist() for x in vjp2(1.0)]
                        second = [onp.asarray(x, dtype=float).tolist() for x in vjp2(1.0)]
                        obs["twice"] = (first, second)
                    obs["value"], obs["grads"] = float(val), [onp.asarray(x, dtype=float).tolist() for x in g]
                    obs["grad_space_ok"] = all(L["ext"].vspace(x) == L["ext"].vspace(vals[j]) for x, j in zip(g, diff))
                else:
                    # level-2 arguments are differentiated inside a function of the level-1 arguments
                    def outer(*x1):
                        env = dict(zip(l1, x1))

                        def inner(*x2):
                            env2 = dict(env)
                            env2.update(zip(l2, x2))
                            return p(*[env2.get(j, vals[j]) for j in range(n)], **kw)

                        g2 = ag.grad(inner, tuple(range(len(l2))))(*[vals[j] for j in l2])
                        tot = 0.0
                        for gg in g2:
                            tot = tot + np.sum(gg)
                        return tot
                    if l1:
                        val, g1 = ag.value_and_grad(outer, tuple(range(len(l1))))(*[vals[j] for j in l1])
                        obs["inner_sum"], obs["outer_grads"] = float(val), [onp.asarray(x, dtype=float).tolist() for x in g1]
                    else:
                        obs["inner_sum"] = float(outer())
            except NotImplementedError as e:
                obs["notimpl"] = str(e)[:100]
            except Exception as e:
                obs["exc"] = "%s: %s" % (type(e).__name__, str(e)[:100])
        obs["log"] = list(LOG)
        return dict(n=n, registered=registered, diff=diff, mode=mode, api=api, levels=levels, kw=kw, vals=vals, k=k, S=Sval, size=size,
                    missing=[j for j in diff if not has_rule(j) and not is_none(j)], nones=[j for j in diff if is_none(j)], l1=l1, l2=l2, obs=obs)

    def judge(ch, o):
        obs, n, k, S, vals = o["obs"], o["n"], o["k"], o["S"], o["vals"]
        feats = dict(arity=n, api=o["api"], mode=o["mode"], two_levels=bool(o["l2"]), kwargs=bool(o["kw"]), ndiff=len(o["diff"]),
                     missing_rule=bool(o["missing"]), none_rule=bool(o["nones"]))
        desc = dict(arity=n, registered=list(o["registered"]), differentiated=list(o["diff"]), api=o["api"], levels=list(o["levels"]), kwargs=o["kw"], mode=o["mode"])
        res = dict(v=[], nontrivial=bool(len(o["diff"]) > 1 or o["l2"]), outcome=(o["api"], len(o["diff"]), bool(o["l2"]), bool(o["missing"])), counts={},
                   sample=dict(choices=list(ch.choices), **desc))
        repro = "# C17 contract case %r: p(a; k) = k*(sum c_i sum(a_i))^2 with c=%r at a=%r" % (desc, C[:n], vals)
        V = lambda kind, got, want: res["v"].append(violation(PROP, "contract", o["api"], o["mode"], kind, feats, ch.choices, desc, got, want, repro))
        def tol(a, b):
            a_, b_ = onp.asarray(a, dtype=float), onp.asarray(b, dtype=float)
            return a_.shape == b_.shape and bool(onp.all(onp.abs(a_ - b_) <= 1e-12 * (1 + onp.abs(b_))))
        size = o["size"]
        fullv = lambda j, x: x if size[j] == 1 else [x] * size[j]
        if o["missing"]:
            if "notimpl" not in obs and not ("exc" in obs and "KeyError" in obs["exc"]):
                V("missing-rule-not-rejected", {kk: vv for kk, vv in obs.items() if kk != "log"}, "NotImplementedError at the point of use")
            elif "exc" in obs:
                res["counts"]["missing-rule-raises-KeyError-instead-of-NotImplementedError"] = 1
            return res
        if "notimpl" in obs or "exc" in obs:
            V("raised", obs.get("notimpl") or obs.get("exc"), None)
            return res
        gexp = lambda j: 0.0 if j in o["nones"] else 2 * k * C[j] * S
        if o["mode"] == "fwd":
            want = sum(gexp(j) * size[j] for j in o["diff"])
            if not tol(obs["value"], k * S * S) or not tol(obs["tangent"], want):
                V("wrong-value", [obs["value"], obs["tangent"]], [k * S * S, want])
        elif not o["l2"]:
            want = [fullv(j, gexp(j)) for j in o["diff"]]
            if not tol(obs["value"], k * S * S) or len(obs["grads"]) != len(want) or not all(tol(a, b) for a, b in zip(obs["grads"], want)):
                V("wrong-routing", obs["grads"], want)
            elif not obs["grad_space_ok"]:
                V("gradient-not-in-argument-space", obs["grads"], want)
            if "twice" in obs and not (len(obs["twice"][0]) == len(want) and all(tol(a, b) for a, b in zip(obs["twice"][0], want))
                                       and len(obs["twice"][1]) == len(want) and all(tol(a, b) for a, b in zip(obs["twice"][1], want))):
                V("second-application-of-the-pullback-differs", obs["twice"], want)
            for j, gval in zip(o["diff"], obs["grads"]):
                if j in o["nones"] and onp.any(onp.asarray(gval) != 0.0):
                    V("none-rule-not-zero", gval, 0.0)
        else:
            c2 = sum(0.0 if j in o["nones"] else C[j] * size[j] for j in o["l2"])
            if not tol(obs["inner_sum"], 2 * k * S * c2):
                V("wrong-value", obs["inner_sum"], 2 * k * S * c2)
            if o["l1"]:
                # the outer derivative flows through the *bodies* of the level-2 rules (which read a_j), so it is
                # 2 k c_j c2 even for a position whose own rule is registered as None
                want = [fullv(j, 2 * k * C[j] * c2) for j in o["l1"]]
                if not all(tol(a, b) for a, b in zip(obs["outer_grads"], want)):
                    V("wrong-routing", obs["outer_grads"], want)
        # logged rule arguments: output, original argument values, kwargs - for every differentiated position with a rule
        called = {}
        for kind, argnum, ans, args, kw in obs["log"]:
            called.setdefault(argnum, []).append((ans, args, kw))
        for j in o["diff"]:
            if j in o["nones"]:
                continue
            if j not in called:
                V("rule-not-invoked", sorted(called), j)
                continue
            for ans, args, kw in called[j]:
                if not tol(ans, k * S * S) or len(args) != n or not all(tol(a, b) for a, b in zip(args, vals)) or kw != o["kw"]:
                    V("rule-called-with-wrong-arguments", [ans, list(args), kw], [k * S * S, [onp.asarray(v).tolist() for v in vals], o["kw"]])
                    break
        extra = set(called) - set(o["diff"])
        if extra:   # harmless (an implementation may build rules eagerly); recorded, not judged
            res["counts"]["rule-also-invoked-for-undifferentiated-argument"] = 1
        return res

    return h, judge


def linear_factory(quick, seed):
    """def_linear and defjvp(..., 'same'): a linear primitive's tangent is the primitive applied to the tangent."""
    L = lib()
    ag, np, ext = L["ag"], L["np"], L["ext"]

    def h(ch):
        n = ch.choose("arity", [1, 2, 3])
        api = ch.choose("api", ["def_linear", "defjvp-same", "defjvp-same-with-None", "defjvp-same-argnums"])
        diff = ch.choose("differentiated", [s for r in range(1, n + 1) for s in itertools.combinations(range(n), r)])
        kw = ch.choose("kwargs", [{}, {"k": 2.5}])
        cs = C[:n]

        @ext.primitive
        def lin(*args, **kw_):
            out = 1.0
            for a in args:
                out = out * a            # multilinear: linear in each argument separately
            return kw_.get("k", 1.0) * out

        if api == "def_linear":
            ext.def_linear(lin)
        elif api == "defjvp-same":
            ext.defjvp(lin, *["same"] * n)
        elif api == "defjvp-same-argnums":
            ext.defjvp(lin, *["same"] * len(diff), argnums=tuple(diff))
        else:
            ext.defjvp(lin, *["same" if i in diff else None for i in range(n)])
        vals = VALS[:n]
        f = lambda *xs: lin(*[xs[diff.index(j)] if j in diff else vals[j] for j in range(n)], **kw)
        with warnings.catch_warnings():
            warnings.simplefilter("ignore")
            try:
                val, t = ag.make_jvp(f, tuple(range(len(diff))))(*[vals[j] for j in diff])(tuple(1.0 for _ in diff))
                got = (float(val), float(t))
            except Exception as e:
                got = "%s: %s" % (type(e).__name__, str(e)[:100])
        k = kw.get("k", 1.0)
        prod = lambda xs: float(onp.prod(xs))
        want = (k * prod(vals), sum(k * prod([1.0 if i == j else vals[i] for i in range(n)]) for j in diff))
        return api, n, diff, got, want

    def judge(ch, out):
        api, n, diff, got, want = out
        ok = not isinstance(got, str) and all(abs(a - b) <= 1e-12 * (1 + abs(b)) for a, b in zip(got, want))
        v = None if ok else violation(PROP, "linear", api, "fwd", "raised" if isinstance(got, str) else "wrong-value", dict(api=api, arity=n), ch.choices,
                                      dict(api=api, arity=n, differentiated=list(diff)), got, want, "# multilinear primitive registered with %s" % api)
        return dict(v=v, nontrivial=len(diff) > 1, outcome=(api, n, len(diff)), counts={}, sample=dict(choices=list(ch.choices), api=api, arity=n, differentiated=list(diff)))

    return h, judge


def deprecated_factory(quick, seed):
    """The pre-1.2 method-style registration (p.defvjp(rule, argnum=k), p.defgrad(rule, argnum=k)) still shipped by autograd.core:
    rules are registered one position at a time, in ANY order; each must stay attached to its own position."""
    L = lib()
    ag, np = L["ag"], L["np"]

    def h(ch):
        n = ch.choose("arity", [1, 2, 3])
        method = ch.choose("method", ["defvjp", "defgrad"])
        subset = ch.choose("registered", [s for r in range(1, n + 1) for s in itertools.combinations(range(n), r)])
        order = ch.choose("order", list(itertools.permutations(subset)))
        diff = ch.choose("differentiated", [s for r in range(1, len(subset) + 1) for s in itertools.combinations(subset, r)])
        cs = C[:n]
        with warnings.catch_warnings():
            warnings.simplefilter("ignore")
            from autograd.core import primitive as old_primitive

            @old_primitive
            def p(*args):
                return sum(c * a for c, a in zip(cs, args)) ** 2
            S = lambda args: sum(c * a for c, a in zip(cs, args))
            for i in order:
                if method == "defvjp":
                    p.defvjp((lambda i: lambda g, ans, vs, gvs, *args: g * 2.0 * cs[i] * S(args))(i), argnum=i)
                else:
                    p.defgrad((lambda i: lambda ans, *args: lambda g: g * 2.0 * cs[i] * S(args))(i), argnum=i)
            vals = [v + 0.01 * (seed % 5) for v in VALS[:n]]
            f = lambda *xs: p(*[xs[diff.index(j)] if j in diff else vals[j] for j in range(n)])
            try:
                got = [float(g) for g in ag.grad(f, tuple(range(len(diff))))(*[vals[j] for j in diff])]
            except Exception as e:
                got = "%s: %s" % (type(e).__name__, str(e)[:100])
        Sv = float(sum(c * v for c, v in zip(cs, vals)))
        want = [2.0 * cs[j] * Sv for j in diff]
        return method, n, subset, order, diff, got, want

    def judge(ch, out):
        method, n, subset, order, diff, got, want = out
        ok = not isinstance(got, str) and onp.allclose(got, want, rtol=1e-12, atol=0)
        feats = dict(api="deprecated-" + method, arity=n, in_order=list(order) == sorted(order))
        desc = dict(method=method, arity=n, registered=list(subset), registration_order=list(order), differentiated=list(diff))
        v = None if ok else violation(PROP, "deprecated", method, "rev", "raised" if isinstance(got, str) else "wrong-value", feats, ch.choices, desc, got, want,
                                      "# autograd.core.primitive (deprecated method API): p.%s(rule, argnum=k) for k in %r" % (method, list(order)))
        return dict(v=v, nontrivial=len(order) > 1, outcome=(method, n, tuple(order), tuple(diff)), counts={}, sample=dict(choices=list(ch.choices), **desc))

    return h, judge


def rereg_factory(quick, seed):
    """Registration AFTER first use: a primitive is differentiated, then its rules are registered again (more positions, other rules,
    another API); the next differentiation must use the latest registration."""
    L = lib()
    ag, np, ext = L["ag"], L["np"], L["ext"]

    def h(ch):
        mode = ch.choose("mode", ["rev", "fwd"])
        first = ch.choose("first_registration", ["x-only", "both", "x-only-argnums"])
        second = ch.choose("second_registration", ["both-doubled", "both-doubled-argnum-api", "y-added-argnums"])
        used_between = ch.choose("differentiated_in_between", [True, False])

        @ext.primitive
        def p(x, y):
            return x * x * y
        rx = lambda s_: (lambda ans, x, y: lambda g: s_ * g * 2 * x * y)
        ry = lambda s_: (lambda ans, x, y: lambda g: s_ * g * x * x)
        jx = lambda s_: (lambda g, ans, x, y: s_ * g * 2 * x * y)
        jy = lambda s_: (lambda g, ans, x, y: s_ * g * x * x)
        D = (lambda f, i: ag.grad(f, i)) if mode == "rev" else (lambda f, i: (lambda *a: ag.make_jvp(f, i)(*a)(1.0)[1]))
        reg = (lambda *r, **k: ext.defvjp(p, *r, **k)) if mode == "rev" else (lambda *r, **k: ext.defjvp(p, *r, **k))
        RX, RY = (rx, ry) if mode == "rev" else (jx, jy)
        x0, y0 = 1.5, -0.7
        out = {}
        with warnings.catch_warnings():
            warnings.simplefilter("ignore")
            try:
                if first == "x-only":
                    reg(RX(1.0))
                elif first == "both":
                    reg(RX(1.0), RY(1.0))
                else:
                    reg(RX(1.0), argnums=(0,))
                if used_between:
                    out["first_dx"] = float(D(p, 0)(x0, y0))
                if second == "both-doubled":
                    reg(RX(2.0), RY(2.0))
                    sx = sy = 2.0
                elif second == "both-doubled-argnum-api":
                    if mode == "rev":
                        ext.defvjp_argnum(p, lambda argnum, ans, args, kw: (lambda g: 2.0 * g * (2 * args[0] * args[1] if argnum == 0 else args[0] ** 2)))
                    else:
                        ext.defjvp_argnum(p, lambda argnum, g, ans, args, kw: 2.0 * g * (2 * args[0] * args[1] if argnum == 0 else args[0] ** 2))
                    sx = sy = 2.0
                else:
                    reg(RY(1.0), argnums=(1,))      # the registration table is replaced: x has no rule any more
                    sx, sy = None, 1.0
                for nm, i, sc, val in (("dx", 0, sx, 2 * x0 * y0), ("dy", 1, sy, x0 * x0)):
                    try:
                        out[nm] = ("value", float(D(p, i)(x0, y0)))
                    except NotImplementedError:
                        out[nm] = ("not-implemented", None)
                    except Exception as e:
                        out[nm] = ("raised", "%s: %s" % (type(e).__name__, str(e)[:80]))
                    out[nm + "_want"] = ("not-implemented", None) if sc is None else ("value", sc * val)
            except Exception as e:
                out["exc"] = "%s: %s" % (type(e).__name__, str(e)[:100])
        return mode, first, second, used_between, out

    def judge(ch, o):
        mode, first, second, used, out = o
        feats = dict(mode=mode, first=first, second=second, used_between=used)
        bad = None
        if "exc" in out:
            bad = ("raised", out["exc"], None)
        else:
            if used and abs(out["first_dx"] - 2 * 1.5 * -0.7) > 1e-12:
                bad = ("wrong-value-before-reregistration", out["first_dx"], 2 * 1.5 * -0.7)
            for nm in ("dx", "dy"):
                got, want = out[nm], out[nm + "_want"]
                # a missing rule must RAISE (NotImplementedError in reverse mode, a KeyError from the rule table in forward mode)
                ok = (want[0] == "not-implemented" and got[0] in ("not-implemented", "raised")) or \
                     (got[0] == want[0] == "value" and abs(got[1] - want[1]) <= 1e-12)
                if not ok and bad is None:
                    bad = ("latest-registration-not-used", {nm: got}, {nm: want})
        v = None if bad is None else violation(PROP, "rereg", "-", mode, bad[0], feats, ch.choices, dict(feats), bad[1], bad[2],
                                               "# user primitive p(x, y) = x*x*y: rules registered (%s), %sthen registered again (%s)" % (first, "differentiated, " if used else "", second))
        return dict(v=v, nontrivial=used, outcome=(mode, first, second, used), counts={}, sample=dict(choices=list(ch.choices), **feats))

    return h, judge


def kwlevel_factory(quick, seed):
    """Keyword arguments carry values too: a keyword argument that depends on a variable of an ENCLOSING differentiation reaches the rule
    as that level's box, so the inner derivative stays differentiable by the outer level (user primitives and checkpoint)."""
    L = lib()
    ag, np, ext = L["ag"], L["np"], L["ext"]

    def h(ch):
        target = ch.choose("target", ["user-primitive", "checkpoint"])
        inner = ch.choose("inner", ["rev", "fwd"])
        outer = ch.choose("outer", ["rev", "fwd"])
        depth = ch.choose("depth", [2, 3])
        kwform = ch.choose("kw_value", ["x", "x*x", "array"])
        if target == "user-primitive":
            @ext.primitive
            def p(y, scale=1.0):       # box-polymorphic body: the keyword value may be a box of an enclosing level
                return np.sum(scale) * y ** 3
            ext.defvjp(p, lambda ans, y, scale=1.0: lambda g: g * np.sum(scale) * 3 * y ** 2)
            ext.defjvp(p, lambda g, ans, y, scale=1.0: g * np.sum(scale) * 3 * y ** 2)
        else:
            p = ag.checkpoint(lambda y, scale=1.0: np.sum(scale) * y ** 3)
            if inner == "fwd":
                raise Skip("checkpoint registers a reverse rule only")
        Dop = lambda m: (ag.grad if m == "rev" else ag.deriv)
        kwf = {"x": lambda x: x, "x*x": lambda x: x * x, "array": lambda x: x * onp.array([1.0, 2.0])}[kwform]
        ksum = {"x": lambda x: x, "x*x": lambda x: x * x, "array": lambda x: 3.0 * x}[kwform]
        dksum = {"x": lambda x: 1.0, "x*x": lambda x: 2 * x, "array": lambda x: 3.0}[kwform]
        x0, y0 = 1.3, 0.8
        want = dksum(x0) * 3 * y0 ** 2
        with warnings.catch_warnings():
            warnings.simplefilter("ignore")
            try:
                if depth == 2:
                    got = Dop(outer)(lambda x: Dop(inner)(lambda y: p(y, scale=kwf(x)))(y0))(x0)
                else:       # a third level in between whose variable also enters the keyword argument
                    got = Dop(outer)(lambda x: Dop("rev")(lambda w: Dop(inner)(lambda y: p(y, scale=kwf(x) * w))(y0))(2.0))(x0)
                got = float(got)
            except Skip:
                raise
            except Exception as e:
                got = "%s: %s" % (type(e).__name__, str(e)[:100])
        return target, inner, outer, depth, kwform, got, want

    def judge(ch, o):
        target, inner, outer, depth, kwform, got, want = o
        feats = dict(target=target, inner=inner, outer=outer, depth=depth, kw_value=kwform)
        ok = not isinstance(got, str) and abs(got - want) <= 1e-12 * (1 + abs(want))
        v = None if ok else violation(PROP, "kwlevel", target, inner + "-in-" + outer, "raised" if isinstance(got, str) else "wrong-value", feats, ch.choices, dict(feats), got, want,
                                      "# d/dx d/dy p(y, scale=k(x)) with p(y, scale) = sum(scale) * y**3 (%s), k = %s" % (target, kwform))
        return dict(v=v, nontrivial=True, outcome=tuple(feats.values()), counts={}, sample=dict(choices=list(ch.choices), **feats))

    return h, judge


def ruletypes_factory(quick, seed):
    """Rules may return any value of the right space in any representation: a lower-precision array next to a float64 one, a NumPy or Python scalar, an
    int for a float argument, a 0-d array - the sum over the differentiated arguments must still be the float64-accurate sum of the rule results."""
    L = lib()
    ag, np, ext = L["ag"], L["np"], L["ext"]
    REPR = {
        "f64": lambda a: onp.asarray(a, dtype=onp.float64), "f32": lambda a: onp.asarray(a).astype(onp.float32), "f16-exact": lambda a: onp.asarray(a).astype(onp.float16),
        "npscalar-or-array": lambda a: onp.float64(a) if onp.ndim(a) == 0 else onp.asarray(a), "pyfloat-or-array": lambda a: float(a) if onp.ndim(a) == 0 else onp.asarray(a),
        "0d-or-array": lambda a: onp.asarray(a),
    }

    def h(ch):
        mode = ch.choose("mode", ["fwd", "rev"])
        shape = ch.choose("shape", [(), (3,)])
        # one rule returns an EXACTLY representable result in a possibly lower precision (g/2), the other a float64 result that lower precisions cannot hold (g/3)
        low_slot = ch.choose("low_precision_slot", [0, 1])
        rl = ch.choose("repr_exact_rule", sorted(REPR))
        rh = ch.choose("repr_float64_rule", ["f64", "npscalar-or-array", "pyfloat-or-array", "0d-or-array"])
        r0, r1 = (rl, rh) if low_slot == 0 else (rh, rl)
        if rh == "pyfloat-or-array" and rl in ("f32", "f16-exact") and not shape:
            raise Skip("a Python float is weakly typed (NEP 50): float32 + Python float is float32 in NumPy itself")
        order = ch.choose("argument_order", ["xy", "yx"])
        # values chosen so that the lower-precision representations are EXACT (powers of two): any loss comes from the accumulation, not the rule
        v = onp.array([1.0, -2.0, 0.5]) if shape else onp.array(2.0)
        x0 = onp.array([0.3, 0.9, -1.4]) if shape else onp.array(0.7)

        c0, c1 = (0.5, 1.0 / 3.0) if low_slot == 0 else (1.0 / 3.0, 0.5)

        @ext.primitive
        def blend(a, b):
            return c0 * a + c1 * b
        if mode == "fwd":
            ext.defjvp(blend, lambda g, ans, a, b: REPR[r0](c0 * g), lambda g, ans, a, b: REPR[r1](c1 * g))
        else:
            ext.defvjp(blend, lambda ans, a, b: lambda g: REPR[r0](c0 * g), lambda ans, a, b: lambda g: REPR[r1](c1 * g))
        f = (lambda x: blend(x, x)) if order == "xy" else (lambda x: blend(x * 1.0, x))
        want = c0 * v + c1 * v
        with warnings.catch_warnings():
            warnings.simplefilter("ignore")
            try:
                got = ag.make_jvp(f)(x0)(v)[1] if mode == "fwd" else ag.make_vjp(f)(x0)[0](v)
                got = onp.asarray(got, dtype=onp.float64)
            except Exception as e:
                got = "%s: %s" % (type(e).__name__, str(e)[:100])
        return mode, shape, r0, r1, order, got, want

    def judge(ch, o):
        mode, shape, r0, r1, order, got, want = o
        feats = dict(mode=mode, rank=len(shape), repr0=r0, repr1=r1, order=order)
        ok = not isinstance(got, str) and got.shape == want.shape and onp.allclose(got, want, rtol=4e-16, atol=0)
        v = None if ok else violation(PROP, "ruletypes", "-", mode, "raised" if isinstance(got, str) else "wrong-value", feats, ch.choices, dict(feats),
                                      got if isinstance(got, str) else got.tolist(), want.tolist(),
                                      "# blend(a, b) = a/2 + b/3 with rules returning %s / %s results, differentiated w.r.t. both arguments at once (%s)" % (r0, r1, mode))
        return dict(v=v, nontrivial=r0 != r1, outcome=(mode, r0, r1), counts={}, sample=dict(choices=list(ch.choices), **feats))

    return h, judge


def checkpoint_factory(quick, seed):
    L = lib()
    ag, np = L["ag"], L["np"]
    K = 0.8
    nmax = 3 if quick else 4

    def h(ch):
        prog, out = build_program(ch, nmax)
        x = ch.choose("x", [0.7 + 0.011 * (seed % 13), -0.45] if len(prog) <= 2 else [0.7 + 0.011 * (seed % 13)])
        where = ch.choose("wrap", ["whole", "first-op", "nested-twice", "whole-with-kwargs"])

        def f(xx):
            vals = []
            get = lambda o: xx if o == "x" else (K if o == "k" else vals[o])
            for i, ins in enumerate(prog):
                a = get(ins[1])
                vals.append(np.sin(a) + 0.5 * a if ins[0] == "u" else a * get(ins[2]) + 0.3 * a)
            return vals[out]

        def first_op_ck(xx):
            vals = []
            get = lambda o: xx if o == "x" else (K if o == "k" else vals[o])
            for i, ins in enumerate(prog):
                if ins[0] == "u":
                    op = lambda a: np.sin(a) + 0.5 * a
                    vals.append(ag.checkpoint(op)(get(ins[1])) if i == 0 else op(get(ins[1])))
                else:
                    op = lambda a, c: a * c + 0.3 * a
                    vals.append(ag.checkpoint(op)(get(ins[1]), get(ins[2])) if i == 0 else op(get(ins[1]), get(ins[2])))
            return vals[out]

        # keyword arguments different from their defaults must reach the recomputation as well
        f_plain = f
        fk = lambda xx, scale=1.0, shift=0.0: scale * f_plain(xx) + shift * xx
        ck = ag.checkpoint(fk)
        g = {"whole": ag.checkpoint(f), "first-op": first_op_ck, "nested-twice": ag.checkpoint(ag.checkpoint(f)),
             "whole-with-kwargs": (lambda xx: ck(xx, scale=3.0, shift=-2.0))}[where]
        if where == "whole-with-kwargs":
            f = lambda xx: 3.0 * f_plain(xx) - 2.0 * xx
        res = {}
        with warnings.catch_warnings():
            warnings.simplefilter("ignore")
            try:
                ref = [float(f(x))]
                got = [float(g(x))]
                df, dg = f, g
                for order in (1, 2, 3):
                    df, dg = ag.grad(df), ag.grad(dg)
                    ref.append(float(df(x)))
                    got.append(float(dg(x)))
                res = dict(ref=ref, got=got)
            except Exception as e:
                res = dict(exc="%s: %s" % (type(e).__name__, str(e)[:100]))
        return prog, out, x, where, res

    def judge(ch, o):
        prog, out, x, where, res = o
        feats = dict(n=len(prog), wrap=where)
        v = None
        repro = "# checkpoint(%s) of program: %s at x=%r (u(a)=sin a+0.5a, b(a,c)=a*c+0.3a)" % (where, prog_src(prog, out), x)
        if "exc" in res:
            v = violation(PROP, "checkpoint", "checkpoint", "rev", "raised", feats, ch.choices, dict(program=prog_src(prog, out)), res["exc"], None, repro)
        else:
            for order, (a, b) in enumerate(zip(res["got"], res["ref"])):
                if not abs(a - b) <= 1e-11 * (1 + abs(b)):
                    v = violation(PROP, "checkpoint", "checkpoint", "rev", "value-differs" if order == 0 else "derivative-differs", dict(feats, order=order), ch.choices,
                                  dict(program=prog_src(prog, out)), res["got"], res["ref"], repro)
                    break
        return dict(v=v, nontrivial=len(prog) >= 2, outcome=tuple(round(r, 9) for r in res.get("ref", [])), counts={},
                    sample=dict(choices=list(ch.choices), program=prog_src(prog, out), wrap=where, derivatives_order_0_to_3=res.get("ref")))

    return h, judge


HARNESSES = {"contract": contract_factory, "linear": linear_factory, "checkpoint": checkpoint_factory, "deprecated": deprecated_factory, "rereg": rereg_factory, "kwlevel": kwlevel_factory, "ruletypes": ruletypes_factory}


def run(ctx):
    rep = Report("exploration")
    run_harnesses(ctx, rep, __name__, ["contract", "linear", "checkpoint", "deprecated", "rereg", "kwlevel", "ruletypes"], depth=4)
    rep.add(rule="contract: (arity, registered subset, mode, registration API, differentiated positions incl. unregistered ones, trace level per "
                 "argument, kwargs); checkpoint: (program, point, wrapping); non-trivial = several differentiated arguments or two trace levels / >=2 ops")
    rep.assumptions = ["arity <= %d; programs n <= %d over sin/*/+; orders 1..3" % ((3, 3) if ctx.quick else (5, 4)),
                       "primitive p(a;k)=k(sum c_i a_i)^2 with distinct c_i; closed-form gradients"]
    return rep


def replay(ctx, v):
    return replay_generic(__name__, ctx, v)
