"""C11 - indexing gradients scatter exactly and combine with dense ones in any order.

  index   every index expression built from the atom alphabet (up to the array rank) on small shapes, in reverse mode,
          forward mode and at second order, against the exact 0/1 scatter-by-ids Jacobian
  mix     every sequence of k sparse and m dense uses of one value (k+m <= 4/5), vector- and scalar-valued, left- and
          right-associated sums, against the sum of the per-term Jacobians; line coverage of add_outgrads is measured
"""
import itertools
import sys
import warnings

import numpy as onp

from ..explore import Skip
from ..findings import violation
from ..par import replay_generic, run_harnesses
from ..runner import Report

PROP = "C11"
_L = {}


def lib():
    if not _L:
        import autograd
        import autograd.numpy as anp
        import autograd.core as core
        _L.update(ag=autograd, np=anp, core=core)
    return _L


ATOMS = ["0", "1", "-1", ":", "1:", ":-1", "::2", "::-1", "1:3", "...", "None", "[0, 0]", "[1, 0]", "[-1, 0, 0]",
         "array([0, 1])", "array([[0], [1]])", "[True, False]", "[True, False, True]", "[False, False]",
         "[0, -2]", "[0, -3]", "array([1, -2])", "array([1, -1])",       # distinct numbers that alias the same position
         "(0, 0, 1)", "(1, -1)", "range(2)"]                              # index arrays spelled as a tuple / range inside the index tuple


ATOMS_SMALL = ["0", "-1", ":", "1:", "::-1", "...", "None", "[0, 0]", "array([[0], [1]])", "[True, False]", "[0, -2]", "array([1, -2])", "(0, 0, 1)"]


def index_factory(quick, seed):
    L = lib()
    ag, np = L["ag"], L["np"]
    shapes = [(), (3,), (2, 3), (2, 3, 2)] if quick else [(), (3,), (2,), (2, 3), (3, 2), (3, 3), (2, 3, 2), (2, 2, 3), (2, 2, 2, 3)]
    whole = ["x > 0.9", "onp.array(%s)", "()", "..., None", "None, ..."]

    def h(ch):
        shape = ch.choose("shape", shapes)
        nd = len(shape)
        n = int(onp.prod(shape))
        form = ch.choose("form", ["tuple", "whole-mask", "nonzero-tuple"])
        x = (onp.modf((onp.arange(n) + 1 + seed) * 0.6180339887)[0] + 0.5).reshape(shape)
        if form == "tuple":
            k = ch.choose("natoms", list(range(1, nd + 2)))
            atoms = [ch.choose("atom%d" % i, ATOMS if (k <= 2 or (k == 3 and not quick)) else ATOMS_SMALL) for i in range(k)]
            if atoms.count("...") > 1:
                raise Skip("two ellipses")
            src = ", ".join(atoms) + ("," if k == 1 and ch.flag("as_1tuple") else "")
        elif form == "whole-mask":
            src = "x > 0.9"
        else:
            src = "onp.nonzero(x > 0.9)"
        ns = dict(array=onp.array, onp=onp, x=x)
        try:
            idx = eval("(lambda: _I[%s])()" % src, dict(ns, _I=_IndexGetter()))
            ids = onp.arange(n).reshape(shape)
            sel = ids[idx]
        except Exception:
            raise Skip("NumPy rejects the index")
        obs = {}
        with warnings.catch_warnings():
            warnings.simplefilter("ignore")
            f = lambda a: a[idx]
            m = sel.size
            # reverse mode
            try:
                vjp, val = ag.make_vjp(f)(x)
                rows = []
                for k_ in range(m):
                    b = onp.zeros(sel.shape)
                    b.reshape(-1)[k_] = 1.0
                    b = b if sel.shape else onp.array(1.0)
                    rows.append(onp.asarray(vjp(b)).reshape(-1))
                obs["rev"] = onp.array(rows).reshape(m, n)
                obs["val_ok"] = onp.array_equal(onp.asarray(val), x[idx])
                # a repeated call of the same vjp must not see stale scatter buffers
                if m:
                    b = onp.ones(sel.shape)
                    obs["rev_ones_twice"] = [onp.asarray(vjp(b)).reshape(-1), onp.asarray(vjp(b)).reshape(-1)]
            except Exception as e:
                obs["rev_exc"] = "%s: %s" % (type(e).__name__, str(e)[:100])
            # forward mode
            try:
                cols = []
                for j in range(n):
                    t = onp.zeros(shape)
                    t.reshape(-1)[j] = 1.0
                    cols.append(onp.asarray(ag.make_jvp(f)(x)(t)[1]).reshape(-1))
                obs["fwd"] = onp.array(cols).reshape(n, m).T
            except Exception as e:
                obs["fwd_exc"] = "%s: %s" % (type(e).__name__, str(e)[:100])
            # second order: the scatter primitive's own rules (reverse and forward of g -> vjp(g))
            try:
                if m:
                    g0 = onp.full(sel.shape, 0.5) if sel.shape else onp.array(0.5)
                    vf = lambda g: ag.make_vjp(f)(x)[0](g)
                    J2 = ag.jacobian(vf)(g0)
                    obs["second_rev"] = onp.asarray(J2).reshape(n, m)
                    c2 = []
                    for k_ in range(m):
                        t = onp.zeros(sel.shape)
                        t.reshape(-1)[k_] = 1.0
                        t = t if sel.shape else onp.array(1.0)
                        c2.append(onp.asarray(ag.make_jvp(vf)(g0)(t)[1]).reshape(-1))
                    obs["second_fwd"] = onp.array(c2).reshape(m, n).T
            except Exception as e:
                obs["second_exc"] = "%s: %s" % (type(e).__name__, str(e)[:100])
        J = onp.zeros((m, n))
        J[onp.arange(m), sel.reshape(-1)] = 1.0
        return shape, src, J, obs

    def judge(ch, out):
        shape, src, J, obs = out
        m, n = J.shape
        repeated = bool(m and onp.any(J.sum(axis=0) > 1))
        feats = dict(rank=len(shape), repeated=repeated, fancy=("[" in src or "array" in src or ">" in src), newaxis="None" in src)
        res = dict(v=[], nontrivial=bool(m > 1), outcome=(J.shape, repeated),
                   sample=dict(choices=list(ch.choices), shape=list(shape), index=src, selected=m, repeated_positions=repeated,
                               outcome={k: (v if isinstance(v, str) else "ok") for k, v in obs.items() if k.endswith("exc")} or "exact"))
        repro = "import numpy as onp, autograd\nfrom numpy import array\nx = (onp.modf((onp.arange(%d)+1)*0.6180339887)[0]+0.5).reshape(%r)\n" \
                "print(autograd.jacobian(lambda a: a[%s])(x))" % (n, shape, src)
        V = lambda mode, kind, got, want: res["v"].append(
            violation(PROP, "index", "__getitem__", mode, kind, feats, ch.choices, dict(shape=list(shape), index=src), got, want, repro))
        for key, mode, want in (("rev", "rev", J), ("fwd", "fwd", J), ("second_rev", "rev2", J.T), ("second_fwd", "fwd2", J.T)):
            if key in obs:
                if obs[key].shape != want.shape or not onp.array_equal(obs[key], want):
                    V(mode, "wrong-value", obs[key].tolist(), want.tolist())
        for key, mode in (("rev_exc", "rev"), ("fwd_exc", "fwd"), ("second_exc", "rev2")):
            if key in obs:   # every index NumPy accepts on a float array is a supported request
                V(mode, "raised", obs[key], None)
        if obs.get("val_ok") is False:
            V("rev", "wrong-primal", None, None)
        if "rev_ones_twice" in obs:
            a, b = obs["rev_ones_twice"]
            if not (onp.array_equal(a, b) and onp.array_equal(a, J.sum(axis=0))):
                V("rev", "repeated-call-differs", [a.tolist(), b.tolist()], J.sum(axis=0).tolist())
        return res

    return h, judge


class _IndexGetter:
    def __getitem__(self, idx):
        return idx


# ------------------------------------------------------------------ sparse / dense mixtures

TERMS = {
    # name: (source over a and constants, sparse?, jacobian builder for n=3)
    "S_perm": ("a[[1, 0, 2]]", True), "S_rep": ("a[[0, 0, 1]]", True), "S_rev": ("a[::-1]", True), "S_mask3": ("a[M] * W", True),
    "D_w": ("W * a", False), "D_sin": ("sin(a)", False), "D_id": ("a", False), "S_slicepad": ("concat(a[1:], a[:1])", True),
}
SCALAR_TERMS = {
    "s_S0": ("a[0] * a[0]", True), "s_S01": ("np.sum(a[[0, 0, 1]] * W)", True), "s_Ssl": ("np.sum(a[1:])", True),
    "s_D": ("np.sum(W * a)", False), "s_Dsin": ("np.sum(sin(a))", False), "s_Sneg": ("a[-1] * 2.0", True),
}


def mix_factory(quick, seed):
    L = lib()
    ag, np, core = L["ag"], L["np"], L["core"]
    kmax = 4 if quick else 5
    W = onp.array([0.7, -1.3, 2.1])
    M = onp.array([True, True, True])
    x0 = onp.array([0.4, 1.1, -0.6]) + 0.01 * (seed % 9)
    ns = dict(np=np, sin=np.sin, W=W, M=M, concat=lambda *a: np.concatenate(a))
    ons = dict(np=onp, sin=onp.sin, W=W, M=M, concat=lambda *a: onp.concatenate(a))
    code = core.add_outgrads.__code__
    lines_hit = set()
    mon = sys.monitoring
    tool = mon.COVERAGE_ID
    try:
        if mon.get_tool(tool) is None:
            mon.use_tool_id(tool, "verif-c11")
        mon.register_callback(tool, mon.events.LINE, lambda co, line: lines_hit.add(line) if co is code else None)
        mon.set_local_events(tool, code, mon.events.LINE)
    except Exception:
        pass

    def numjac_exact(names, table, assoc):
        # every term is linear or sin: Jacobian written exactly
        n = 3
        J = onp.zeros((n, n)) if table is TERMS else onp.zeros((1, n))
        I = onp.eye(n)
        for t in names:
            if t == "S_perm":
                J += I[[1, 0, 2]]
            elif t == "S_rep":
                J += I[[0, 0, 1]]
            elif t == "S_rev":
                J += I[::-1]
            elif t == "S_mask3":
                J += onp.diag(W)
            elif t == "D_w":
                J += onp.diag(W)
            elif t == "D_sin":
                J += onp.diag(onp.cos(x0))
            elif t == "D_id":
                J += I
            elif t == "S_slicepad":
                J += I[[1, 2, 0]]
            elif t == "s_S0":
                J += 2 * x0[0] * I[0:1]
            elif t == "s_S01":
                J += (W[0] + W[1]) * I[0:1] + W[2] * I[1:2]
            elif t == "s_Ssl":
                J += I[1:2] + I[2:3]
            elif t == "s_D":
                J += W[None, :]
            elif t == "s_Dsin":
                J += onp.cos(x0)[None, :]
            elif t == "s_Sneg":
                J += 2.0 * I[2:3]
        return J

    def h(ch):
        kind = ch.choose("output", ["vector", "scalar"])
        table = TERMS if kind == "vector" else SCALAR_TERMS
        k = ch.choose("nuses", list(range(1, kmax + 1)))
        names = [ch.choose("use%d" % i, sorted(table)) for i in range(k)]
        assoc = ch.choose("assoc", ["left", "right"] if k > 2 else ["left"])
        parts = ["(%s)" % table[t][0] for t in names]
        if assoc == "left":
            src = parts[0]
            for p in parts[1:]:
                src = "(%s + %s)" % (src, p)
        else:
            src = parts[-1]
            for p in reversed(parts[:-1]):
                src = "(%s + %s)" % (p, src)
        f = eval("lambda a: " + src, ns)
        before = set(lines_hit)
        obs = {}
        x = x0.copy()
        x.flags.writeable = False
        with warnings.catch_warnings():
            warnings.simplefilter("ignore")
            try:
                Jr = ag.jacobian(f)(x)
                obs["rev"] = onp.asarray(Jr).reshape(-1, 3)
                obs["fwd"] = onp.array([onp.asarray(ag.make_jvp(f)(x)(e)[1]).reshape(-1) for e in onp.eye(3)]).T
            except Exception as e:
                obs["exc"] = "%s: %s" % (type(e).__name__, str(e)[:100])
        return kind, names, assoc, src, numjac_exact(names, table, assoc), obs, sorted(lines_hit - before)

    def judge(ch, out):
        kind, names, assoc, src, J, obs, newlines = out
        table = TERMS if kind == "vector" else SCALAR_TERMS
        nsparse = sum(1 for t in names if table[t][1])
        feats = dict(output=kind, nsparse=nsparse, ndense=len(names) - nsparse, first=("sparse" if table[names[0]][1] else "dense"), assoc=assoc)
        res = dict(v=[], nontrivial=bool(nsparse and nsparse < len(names)) or nsparse >= 2, outcome=tuple(onp.round(J, 6).reshape(-1)),
                   counts={"line:%d" % l: 1 for l in newlines},
                   sample=dict(choices=list(ch.choices), program="lambda a: " + src, sparse_uses=nsparse, dense_uses=len(names) - nsparse))
        repro = "import autograd, autograd.numpy as np, numpy as onp\nsin=np.sin; W=onp.array([0.7,-1.3,2.1]); M=onp.array([True]*3); " \
                "concat=lambda *a: np.concatenate(a)\nprint(autograd.jacobian(lambda a: %s)(onp.array(%r)))" % (src, x0.tolist())
        V = lambda mode, kind_, got, want: res["v"].append(violation(PROP, "mix", "-", mode, kind_, feats, ch.choices, dict(program=src), got, want, repro))
        if "exc" in obs:
            V("rev+fwd", "raised", obs["exc"], None)
            return res
        for mode in ("rev", "fwd"):
            if obs[mode].shape != J.shape or not onp.allclose(obs[mode], J, rtol=1e-12, atol=1e-12):
                V(mode, "wrong-value", obs[mode].tolist(), J.tolist())
        return res

    return h, judge


# rank-0 arrays: the accumulator of a 0-d value easily decays to a NumPy scalar
TERMS0 = {
    # name: (source, sparse?, first derivative, second derivative)
    "S_unit3": ("a[()] ** 3", True, lambda a: 3 * a * a, lambda a: 6 * a),
    "S_ell": ("a[...] * 2.0", True, lambda a: 2.0, lambda a: 0.0),
    "S_new": ("a[None][0] * a[None][0]", True, lambda a: 2 * a, lambda a: 2.0),
    "S_newell": ("a[..., None][-1]", True, lambda a: 1.0, lambda a: 0.0),
    "D_sq": ("a * a", False, lambda a: 2 * a, lambda a: 2.0),
    "D_sin": ("sin(a)", False, lambda a: onp.cos(a), lambda a: -onp.sin(a)),
    "D_id": ("a", False, lambda a: 1.0, lambda a: 0.0),
    "D_w": ("0.7 * a", False, lambda a: 0.7, lambda a: 0.0),
}


def mix0_factory(quick, seed):
    L = lib()
    ag, np = L["ag"], L["np"]
    kmax = 3 if quick else 4
    a0 = 0.4 + 0.01 * (seed % 9)
    ns = dict(np=np, sin=np.sin)

    def h(ch):
        k = ch.choose("nuses", list(range(1, kmax + 1)))
        names = [ch.choose("use%d" % i, sorted(TERMS0)) for i in range(k)]
        assoc = ch.choose("assoc", ["left", "right"] if k > 2 else ["left"])
        parts = ["(%s)" % TERMS0[t][0] for t in names]
        if assoc == "left":
            src = parts[0]
            for p in parts[1:]:
                src = "(%s + %s)" % (src, p)
        else:
            src = parts[-1]
            for p in reversed(parts[:-1]):
                src = "(%s + %s)" % (p, src)
        f = eval("lambda a: " + src, ns)
        x = onp.array(a0)
        x.flags.writeable = False
        obs = {}
        with warnings.catch_warnings():
            warnings.simplefilter("ignore")
            for key, thunk in (("rev", lambda: ag.grad(f)(x)), ("fwd", lambda: ag.make_jvp(f)(x)(onp.array(1.0))[1]),
                               ("rev2", lambda: ag.grad(ag.grad(f))(x)), ("fwdrev", lambda: ag.make_jvp(ag.grad(f))(x)(onp.array(1.0))[1])):
                try:
                    obs[key] = onp.asarray(thunk())
                except Exception as e:
                    obs[key] = "%s: %s" % (type(e).__name__, str(e)[:100])
        d1 = sum(TERMS0[t][2](a0) for t in names)
        d2 = sum(TERMS0[t][3](a0) for t in names)
        return names, assoc, src, d1, d2, obs

    def judge(ch, out):
        names, assoc, src, d1, d2, obs = out
        nsparse = sum(1 for t in names if TERMS0[t][1])
        feats = dict(output="rank0", nsparse=nsparse, ndense=len(names) - nsparse, first=("sparse" if TERMS0[names[0]][1] else "dense"), assoc=assoc)
        res = dict(v=[], nontrivial=bool(nsparse and nsparse < len(names)) or nsparse >= 2, outcome=(round(d1, 6), round(d2, 6)), counts={},
                   sample=dict(choices=list(ch.choices), program="lambda a: " + src, sparse_uses=nsparse, dense_uses=len(names) - nsparse))
        repro = "import autograd, autograd.numpy as np, numpy as onp\nsin=np.sin\nf = lambda a: %s\nx = onp.array(%r)\n" \
                "print(autograd.grad(f)(x), autograd.grad(autograd.grad(f))(x))" % (src, a0)
        for mode, want in (("rev", d1), ("fwd", d1), ("rev2", d2), ("fwdrev", d2)):
            got = obs[mode]
            if isinstance(got, str):
                res["v"].append(violation(PROP, "mix0", "-", mode, "raised", feats, ch.choices, dict(program=src), got, None, repro))
            elif got.shape != () or not onp.allclose(got, want, rtol=1e-12, atol=1e-12):
                res["v"].append(violation(PROP, "mix0", "-", mode, "wrong-value", feats, ch.choices, dict(program=src), got.tolist(), want, repro))
        return res

    return h, judge


# rank-2 arrays: dense cotangents may arrive Fortran-ordered (x.T uses), sparse ones index every axis with integers / integer arrays
W2 = onp.array([[0.7, -1.3, 2.1], [0.4, 0.9, -0.5]])
TERMS2 = {
    # name: (source (scalar-valued), sparse?, gradient as a function of a (2,3))
    "S_pair": ("np.sum(a[[0, 1], [1, 2]] * onp.array([2.0, 3.0]))", True, lambda a: _scatter([(0, 1, 2.0), (1, 2, 3.0)])),
    "S_rep": ("np.sum(a[[0, 0, 1], [2, 2, 0]])", True, lambda a: _scatter([(0, 2, 2.0), (1, 0, 1.0)])),
    "S_elem": ("a[1, 1] * a[1, 1]", True, lambda a: _scatter([(1, 1, 2 * a[1, 1])])),
    "S_neg": ("a[-1, [0, -1]][1] * 4.0", True, lambda a: _scatter([(1, 2, 4.0)])),
    "S_row": ("np.sum(a[0] * onp.array([1.0, 2.0, 3.0]))", True, lambda a: _scatter([(0, 0, 1.0), (0, 1, 2.0), (0, 2, 3.0)])),
    "D_T": ("np.sum(a.T * W2.T)", False, lambda a: W2),
    "D_transpose_sin": ("np.sum(np.sin(np.transpose(a)))", False, lambda a: onp.cos(a)),
    "D_w": ("np.sum(W2 * a)", False, lambda a: W2),
    "D_sq": ("np.sum(a * a)", False, lambda a: 2 * a),
}


def _scatter(items):
    g = onp.zeros((2, 3))
    for i, j, v in items:
        g[i, j] += v
    return g


def mix2_factory(quick, seed):
    L = lib()
    ag, np = L["ag"], L["np"]
    kmax = 3 if quick else 4
    a0 = onp.array([[0.4, 1.1, -0.6], [0.8, -0.2, 1.5]]) + 0.01 * (seed % 9)
    ns = dict(np=np, onp=onp, W2=W2)

    def h(ch):
        k = ch.choose("nuses", list(range(1, kmax + 1)))
        names = [ch.choose("use%d" % i, sorted(TERMS2)) for i in range(k)]
        assoc = ch.choose("assoc", ["left", "right"] if k > 2 else ["left"])
        layout = ch.choose("input_layout", ["C", "F"])
        parts = ["(%s)" % TERMS2[t][0] for t in names]
        if assoc == "left":
            src = parts[0]
            for p_ in parts[1:]:
                src = "(%s + %s)" % (src, p_)
        else:
            src = parts[-1]
            for p_ in reversed(parts[:-1]):
                src = "(%s + %s)" % (p_, src)
        f = eval("lambda a: " + src, ns)
        x = onp.asfortranarray(a0) if layout == "F" else a0.copy()
        x.flags.writeable = False
        obs = {}
        with warnings.catch_warnings():
            warnings.simplefilter("ignore")
            try:
                obs["rev"] = onp.asarray(ag.grad(f)(x))
                obs["fwd"] = onp.array([[float(ag.make_jvp(f)(x)(_scatter([(i, j, 1.0)]))[1]) for j in range(3)] for i in range(2)])
            except Exception as e:
                obs["exc"] = "%s: %s" % (type(e).__name__, str(e)[:100])
        want = sum(TERMS2[t][2](a0) for t in names)
        return names, assoc, layout, src, want, obs

    def judge(ch, out):
        names, assoc, layout, src, want, obs = out
        nsparse = sum(1 for t in names if TERMS2[t][1])
        feats = dict(output="rank2", nsparse=nsparse, ndense=len(names) - nsparse, first=("sparse" if TERMS2[names[0]][1] else "dense"), assoc=assoc, layout=layout)
        res = dict(v=[], nontrivial=bool(nsparse and nsparse < len(names)) or nsparse >= 2, outcome=tuple(onp.round(want, 6).reshape(-1)), counts={},
                   sample=dict(choices=list(ch.choices), program="lambda a: " + src, sparse_uses=nsparse, dense_uses=len(names) - nsparse))
        repro = "import autograd, autograd.numpy as np, numpy as onp\nW2 = onp.array(%r)\nf = lambda a: %s\nprint(autograd.grad(f)(onp.array(%r)))" % (W2.tolist(), src, a0.tolist())
        V = lambda mode, kind_, got, w: res["v"].append(violation(PROP, "mix2", "-", mode, kind_, feats, ch.choices, dict(program=src), got, w, repro))
        if "exc" in obs:
            V("rev+fwd", "raised", obs["exc"], None)
            return res
        for mode in ("rev", "fwd"):
            if obs[mode].shape != want.shape or not onp.allclose(obs[mode], want, rtol=1e-12, atol=1e-12):
                V(mode, "wrong-value", obs[mode].tolist(), want.tolist())
        return res

    return h, judge


HARNESSES = {"index": index_factory, "mix": mix_factory, "mix0": mix0_factory, "mix2": mix2_factory}


def run(ctx):
    rep = Report("exploration")
    run_harnesses(ctx, rep, __name__, ["index", "mix", "mix0", "mix2"], depth=3)
    lines = sorted(int(k.split(":")[1]) for k in rep.cov["per_harness"]["mix"]["counts"] if k.startswith("line:"))
    import dis
    core = lib()["core"]
    all_lines = sorted({l for _, l in dis.findlinestarts(core.add_outgrads.__code__) if l})
    rep.add(add_outgrads_lines_executed=lines, add_outgrads_lines_total=all_lines,
            add_outgrads_line_coverage="%d/%d" % (len(set(lines) & set(all_lines)), len(all_lines)),
            rule="index: every tuple of atoms (<= rank+1 atoms, <=1 ellipsis) NumPy accepts, plus whole-array masks; exact 0/1 Jacobian in "
                 "both modes and second-order (the scatter primitive's own rules); mix: every sequence of <=%d uses from the term table, "
                 "both association orders; non-trivial = more than one selected position / both sparse and dense uses" % (4 if ctx.quick else 5))
    if not ctx.quick or True:
        missing = sorted(set(all_lines) - set(lines))
        if missing:
            rep.notes.append("add_outgrads lines never executed by the mix harness: %r" % (missing,))
    rep.assumptions = ["rank <= %d, dims in {2,3}; atom alphabet %r" % (3 if ctx.quick else 4, ATOMS), "exact comparison for pure indexing (0/1 Jacobians)"]
    return rep


def replay(ctx, v):
    return replay_generic(__name__, ctx, v)
