"""C03 - chain rule over arbitrary graphs; each recorded op differentiated exactly once.

Three exhaustively walked harnesses, all on the real code:
  graphs   every straight-line program with n <= N ops over two logging user primitives u(a), b(a,c)
           (operands from {x, constant k, any earlier result}; every result position as the output)
  cflow    programs with value-dependent Python control flow (branch, while, recursion, closure)
           interpreted once over autograd values and once over plain reference dual numbers
  topo     autograd.util.toposort on every explicit parent-list DAG (parents as multisets)
Reference: a literal reverse sweep / path-sum over the executed trace in plain Python (math only).
"""
import itertools
import math
import warnings

from ..findings import violation
from ..par import replay_generic, run_harness
from ..runner import Report

PROP = "C03"
K = 0.8  # the constant operand

_P = {}


def prims():
    """User primitives registered through the public extension API; rules log their invocations."""
    if _P:
        return _P
    from autograd.extend import defjvp, defvjp, primitive
    LOG = []

    @primitive
    def u(a, tag):
        return math.sin(a) + 0.5 * a

    defvjp(u, lambda ans, a, tag: lambda g: (LOG.append(("u", tag, float(g))), g * (math.cos(a) + 0.5))[1])
    defjvp(u, lambda g, ans, a, tag: g * (math.cos(a) + 0.5))

    @primitive
    def b(a, c, tag):
        return a * c + 0.3 * a

    defvjp(b,
           lambda ans, a, c, tag: lambda g: (LOG.append(("b0", tag, float(g))), g * (c + 0.3))[1],
           lambda ans, a, c, tag: lambda g: (LOG.append(("b1", tag, float(g))), g * a)[1])
    defjvp(b, lambda g, ans, a, c, tag: g * (c + 0.3), lambda g, ans, a, c, tag: g * a)

    @primitive
    def t(a, c, e, tag):       # three operands: exercises the general (>2 traced arguments) registration path
        return a * c + 0.7 * e + 0.1 * a * e

    defvjp(t,
           lambda ans, a, c, e, tag: lambda g: (LOG.append(("t0", tag, float(g))), g * (c + 0.1 * e))[1],
           lambda ans, a, c, e, tag: lambda g: (LOG.append(("t1", tag, float(g))), g * a)[1],
           lambda ans, a, c, e, tag: lambda g: (LOG.append(("t2", tag, float(g))), g * (0.7 + 0.1 * a))[1])
    defjvp(t, lambda g, ans, a, c, e, tag: g * (c + 0.1 * e), lambda g, ans, a, c, e, tag: g * a, lambda g, ans, a, c, e, tag: g * (0.7 + 0.1 * a))
    _P.update(u=u, b=b, t=t, LOG=LOG)
    return _P


# ------------------------------------------------------------------ graphs

def build_program(ch, nmax, ternary=False):
    n = ch.choose("n", list(range(1, nmax + 1)))
    prog = []
    for i in range(n):
        opts = ["x", "k"] + list(range(i))
        op = ch.choose("op%d" % i, ["u", "b", "t"] if (ternary and n <= 2) else ["u", "b"])
        if op == "u":
            prog.append(("u", ch.choose("a%d" % i, opts)))
        elif op == "b":
            prog.append(("b", ch.choose("a%d" % i, opts), ch.choose("c%d" % i, opts)))
        else:
            prog.append(("t", ch.choose("a%d" % i, opts), ch.choose("c%d" % i, opts), ch.choose("e%d" % i, opts)))
    out = ch.choose("out", list(range(n - 1, -1, -1)))
    return prog, out


def reference(prog, out, x):
    vals = []
    get = lambda o: x if o == "x" else (K if o == "k" else vals[o])
    edges = []
    for i, ins in enumerate(prog):
        if ins[0] == "u":
            a = get(ins[1])
            vals.append(math.sin(a) + 0.5 * a)
            edges.append((ins[1], i, math.cos(a) + 0.5))
        elif ins[0] == "b":
            a, c = get(ins[1]), get(ins[2])
            vals.append(a * c + 0.3 * a)
            edges.append((ins[1], i, c + 0.3))
            edges.append((ins[2], i, a))
        else:
            a, c, e = get(ins[1]), get(ins[2]), get(ins[3])
            vals.append(a * c + 0.7 * e + 0.1 * a * e)
            edges.append((ins[1], i, c + 0.1 * e))
            edges.append((ins[2], i, a))
            edges.append((ins[3], i, 0.7 + 0.1 * a))
    dep = {}
    for i, ins in enumerate(prog):
        dep[i] = any(o == "x" or (isinstance(o, int) and dep[o]) for o in ins[1:])
    adj = {i: 0.0 for i in range(len(prog))}
    adj["x"] = adj["k"] = 0.0
    adj[out] = 1.0
    live = set()
    stack = [out]
    while stack:
        nd = stack.pop()
        if nd in live or not isinstance(nd, int) or not dep[nd]:
            continue
        live.add(nd)
        stack += [o for o in prog[nd][1:] if isinstance(o, int)]
    for i in reversed(range(len(prog))):
        for (s, d, p) in edges:
            if d == i:
                adj[s] += adj[i] * p
    return vals[out], adj["x"], {i: adj[i] for i in live}, dep


def prog_src(prog, out):
    lines = []
    nm = lambda o: "x" if o == "x" else (repr(K) if o == "k" else "v%d" % o)
    for i, ins in enumerate(prog):
        if ins[0] == "u":
            lines.append("v%d = u(%s)" % (i, nm(ins[1])))
        elif ins[0] == "b":
            lines.append("v%d = b(%s, %s)" % (i, nm(ins[1]), nm(ins[2])))
        else:
            lines.append("v%d = t(%s, %s, %s)" % (i, nm(ins[1]), nm(ins[2]), nm(ins[3])))
    lines.append("return v%d" % out)
    return "; ".join(lines)


def graphs_factory(quick, seed):
    from autograd import make_jvp, make_vjp
    P = prims()
    u, b, t3, LOG = P["u"], P["b"], P["t"], P["LOG"]
    nmax = 4 if quick else 5
    xs = [0.7 + 0.011 * (seed % 13), -0.45]

    def h(ch):
        prog, out = build_program(ch, nmax, ternary=True)
        x = ch.choose("x", xs if len(prog) <= 3 else xs[:1])

        def f(x):
            vals = []
            get = lambda o: x if o == "x" else (K if o == "k" else vals[o])
            for i, ins in enumerate(prog):
                vals.append(u(get(ins[1]), i) if ins[0] == "u" else (b(get(ins[1]), get(ins[2]), i) if ins[0] == "b" else t3(get(ins[1]), get(ins[2]), get(ins[3]), i)))
            return vals[out]

        obs = {}
        with warnings.catch_warnings():
            warnings.simplefilter("ignore")
            try:
                del LOG[:]
                vjp, v = make_vjp(f)(x)
                obs["value"] = float(v)
                obs["log_forward"] = list(LOG)      # nothing may be differentiated before the backward pass
                del LOG[:]
                obs["grad"] = float(vjp(1.0))
                obs["log1"] = list(LOG)
                del LOG[:]
                obs["grad2"] = float(vjp(1.0))      # a second backward evaluation: again exactly once each
                obs["log2"] = list(LOG)
                pv, t = make_jvp(f)(x)(1.0)
                obs["jvp_value"], obs["tangent"] = float(pv), float(t)
            except Exception as e:
                obs["exc"] = "%s: %s" % (type(e).__name__, str(e)[:100])
        return prog, out, x, obs

    def judge(ch, o):
        prog, out, x, obs = o
        val, dx, adj_live, dep = reference(prog, out, x)
        feats = dict(n=len(prog), multi_edge=any(len(set(i[1:])) < len(i[1:]) and any(isinstance(o, int) for o in i[1:]) for i in prog if i[0] != "u"),
                     dead=len(adj_live) < sum(dep.values()))
        nontriv = bool(len(adj_live) >= 2 or feats["multi_edge"])
        res = dict(v=None, nontrivial=nontriv, outcome=(round(dx, 10),),
                   sample=dict(choices=list(ch.choices), program=prog_src(prog, out), x=x, reference_grad=dx, observed=obs.get("grad")))
        repro = ("# C03 program; u(a)=sin a+0.5a, b(a,c)=a*c+0.3a registered via autograd.extend with logging rules\n"
                 "# def f(x): " + prog_src(prog, out) + "\n# at x=%r expected d/dx=%r" % (x, dx))

        def V(kind, got, want, mode="rev"):
            return violation(PROP, "graphs", "-", mode, kind, feats, ch.choices, ch.decoded(), got, want, repro)

        tol = lambda a, r: abs(a - r) <= 1e-12 * (1 + abs(r))
        if "exc" in obs:
            res["v"] = V("raised", obs["exc"], dx, "rev+fwd")
            return res
        if not tol(obs["value"], val) or not tol(obs["jvp_value"], val):
            res["v"] = V("wrong-primal", [obs["value"], obs["jvp_value"]], val, "rev+fwd")
        elif not tol(obs["grad"], dx) or not tol(obs["grad2"], dx):
            res["v"] = V("wrong-value", [obs["grad"], obs["grad2"]], dx)
        elif not tol(obs["tangent"], dx):
            res["v"] = V("wrong-value", obs["tangent"], dx, "fwd")
        elif obs["log_forward"]:
            res["v"] = V("rule-invoked-during-forward", obs["log_forward"], [])
        else:
            for log in (obs["log1"], obs["log2"]):
                bad = check_log(prog, log, adj_live, dep)
                if bad:
                    res["v"] = V(bad[0], bad[1], bad[2])
                    break
        return res

    return h, judge


def check_log(prog, log, adj_live, dep):
    calls = {}
    for (k, tag, gg) in log:
        calls.setdefault(tag, []).append((k, gg))
    isdep = lambda o: o == "x" or (isinstance(o, int) and dep[o])
    for nd, a in adj_live.items():
        ins = prog[nd]
        if ins[0] == "u":
            expect = ["u"]
        elif ins[0] == "b":
            expect = (["b0"] if isdep(ins[1]) else []) + (["b1"] if isdep(ins[2]) else [])
        else:
            expect = [k for k, o in zip(("t0", "t1", "t2"), ins[1:]) if isdep(o)]
        got = sorted(k for k, _ in calls.get(nd, []))
        if got != sorted(expect):
            return ("rule-invocation-count", {"node": nd, "invoked": got}, expect)
        for k, gg in calls.get(nd, []):
            if abs(gg - a) > 1e-12 * (1 + abs(a)):
                return ("rule-invoked-before-all-consumers", {"node": nd, "cotangent": gg}, a)
    extra = set(calls) - set(adj_live)
    if extra:
        return ("dead-op-differentiated", sorted(extra), [])
    return None


# ------------------------------------------------------------------ control flow

class Dual:
    """Plain forward-mode dual number: the boring reference for value-dependent control flow."""
    __slots__ = ("v", "d")

    def __init__(s, v, d=0.0):
        s.v, s.d = v, d

    def __gt__(s, o):
        return s.v > _v(o)

    def __lt__(s, o):
        return s.v < _v(o)


def _v(o):
    return o.v if isinstance(o, Dual) else o


def _d(o):
    return o.d if isinstance(o, Dual) else 0.0


def ref_u(a):
    return Dual(math.sin(_v(a)) + 0.5 * _v(a), (math.cos(_v(a)) + 0.5) * _d(a))


def ref_b(a, c):
    return Dual(_v(a) * _v(c) + 0.3 * _v(a), _d(a) * (_v(c) + 0.3) + _v(a) * _d(c))


OPS = ["u(a)", "b(a,x)", "b(x,a)", "b(a,a)", "b(a,k)"]


def apply_op(op, a, x, u, b):
    if op == "u(a)":
        return u(a)
    if op == "b(a,x)":
        return b(a, x)
    if op == "b(x,a)":
        return b(x, a)
    if op == "b(a,a)":
        return b(a, a)
    return b(a, K)


def interp(stmts, x, u, b):
    """The program text: interpreted identically over autograd boxes and over Dual numbers."""
    v = x
    trace = []
    for st in stmts:
        kind = st[0]
        if kind == "if":
            _, thr, op1, op2 = st
            if v > thr:
                v = apply_op(op1, v, x, u, b)
                trace.append("T")
            else:
                v = apply_op(op2, v, x, u, b)
                trace.append("F")
        elif kind == "while":
            _, lim, op = st
            k = 0
            while v < lim and k < 3:
                v = apply_op(op, v, x, u, b)
                k += 1
            trace.append(k)
        elif kind == "rec":
            _, thr, op = st

            def rec(a, d):
                if d == 0 or a > thr:
                    return a, d
                return rec(apply_op(op, a, x, u, b), d - 1)

            v, left = rec(v, 3)
            trace.append(3 - left)
        elif kind == "closure":
            _, op = st
            captured = v
            g = lambda a: apply_op(op, a, captured, u, b)   # closes over an intermediate traced value
            v = g(x)
            trace.append("c")
    return v, tuple(trace)


def cflow_factory(quick, seed):
    from autograd import make_jvp, make_vjp
    P = prims()
    tag = [0]

    def au(a):
        tag[0] += 1
        return P["u"](a, tag[0])

    def ab(a, c):
        tag[0] += 1
        return P["b"](a, c, tag[0])

    thr_alpha = [0.5, 1.0]
    ops = OPS if not quick else OPS[:4]

    def stmt(ch, i):
        kind = ch.choose("stmt%d" % i, ["if", "while", "rec", "closure"])
        if kind == "if":
            return ("if", ch.choose("thr%d" % i, thr_alpha), ch.choose("opT%d" % i, ops), ch.choose("opF%d" % i, ops[:3]))
        if kind == "while":
            return ("while", ch.choose("lim%d" % i, [1.0, 2.5]), ch.choose("op%d" % i, ops))
        if kind == "rec":
            return ("rec", ch.choose("thr%d" % i, [1.0, 2.5]), ch.choose("op%d" % i, ops))
        return ("closure", ch.choose("op%d" % i, ops))

    def h(ch):
        n = ch.choose("nstmts", [1, 2] if quick else [1, 2, 3])
        stmts = [stmt(ch, i) for i in range(n)]
        x = ch.choose("x", [0.3, 0.7, 1.2, 1.9]) + 0.007 * (seed % 11)
        obs = {}
        with warnings.catch_warnings():
            warnings.simplefilter("ignore")
            try:
                f = lambda x: interp(stmts, x, au, ab)[0]
                vjp, v = make_vjp(f)(x)
                obs["value"], obs["grad"] = float(v), float(vjp(1.0))
                pv, t = make_jvp(f)(x)(1.0)
                obs["tangent"] = float(t)
                obs["trace"] = interp(stmts, x, au, ab)[1]
            except Exception as e:
                obs["exc"] = "%s: %s" % (type(e).__name__, str(e)[:100])
        r, rtrace = interp(stmts, Dual(x, 1.0), ref_u, ref_b)
        return stmts, x, obs, (_v(r), _d(r), rtrace)

    def judge(ch, o):
        stmts, x, obs, (rv, rd, rtrace) = o
        feats = dict(kinds="+".join(s[0] for s in stmts))
        res = dict(v=None, nontrivial=any(t not in (0, "c") for t in rtrace), outcome=rtrace + (round(rd, 9),),
                   sample=dict(choices=list(ch.choices), stmts=stmts, x=x, control_trace=list(rtrace), reference=[rv, rd], observed=obs))
        repro = "# control-flow program %r at x=%r; u(a)=sin a+0.5a, b(a,c)=a*c+0.3a; expected value %r grad %r" % (stmts, x, rv, rd)
        V = lambda kind, got, want, mode: violation(PROP, "cflow", "-", mode, kind, feats, ch.choices, ch.decoded(), got, want, repro)
        tol = lambda a, r: abs(a - r) <= 1e-12 * (1 + abs(r))
        if "exc" in obs:
            res["v"] = V("raised", obs["exc"], rd, "rev+fwd")
        elif obs["trace"] != rtrace:
            res["v"] = V("control-flow-diverged", list(obs["trace"]), list(rtrace), "rev+fwd")
        elif not tol(obs["value"], rv):
            res["v"] = V("wrong-primal", obs["value"], rv, "rev")
        elif not tol(obs["grad"], rd):
            res["v"] = V("wrong-value", obs["grad"], rd, "rev")
        elif not tol(obs["tangent"], rd):
            res["v"] = V("wrong-value", obs["tangent"], rd, "fwd")
        return res

    return h, judge


# ------------------------------------------------------------------ toposort on explicit DAGs

class N:
    __slots__ = ("i", "parents")

    def __init__(s, i):
        s.i, s.parents = i, ()


def topo_factory(quick, seed):
    from autograd.util import toposort
    nmax = 5 if quick else 6

    def h(ch):
        n = ch.choose("nodes", list(range(1, nmax + 1)))
        nodes = [N(i) for i in range(n)]
        plist = []
        for i in range(n):
            cands = list(range(i + 1, n))
            ms = [()]
            for r in (1, 2, 3):
                ms += list(itertools.combinations_with_replacement(cands, r))
            p = ch.choose("parents%d" % i, ms)
            nodes[i].parents = tuple(nodes[j] for j in p)
            plist.append(p)
        try:
            order = [nd.i for nd in toposort(nodes[0])]
        except Exception as e:
            order = "%s: %s" % (type(e).__name__, e)
        return plist, order

    def judge(ch, o):
        plist, order = o
        n = len(plist)
        reach = set()
        st = [0]
        while st:
            i = st.pop()
            if i in reach:
                continue
            reach.add(i)
            st += list(plist[i])
        feats = dict(nodes=n, multi=any(len(set(p)) < len(p) for p in plist))
        res = dict(v=None, nontrivial=len(reach) >= 3, outcome=None,
                   sample=dict(choices=list(ch.choices), parents=[list(p) for p in plist], order=order))
        repro = ("from autograd.util import toposort\nclass N:\n    def __init__(s,i): s.i=i; s.parents=()\n"
                 "P=%r\nns=[N(i) for i in range(len(P))]\nfor i,p in enumerate(P): ns[i].parents=tuple(ns[j] for j in p)\n"
                 "print([n.i for n in toposort(ns[0])])" % (plist,))
        V = lambda kind, got, want: violation(PROP, "topo", "toposort", "-", kind, feats, ch.choices, ch.decoded(), got, want, repro)
        if isinstance(order, str):
            res["v"] = V("raised", order, sorted(reach))
        elif sorted(order) != sorted(reach):
            res["v"] = V("not-each-reachable-node-exactly-once", order, sorted(reach))
        else:
            pos = {i: k for k, i in enumerate(order)}
            for i in reach:
                for p in plist[i]:
                    if pos[p] < pos[i]:
                        res["v"] = V("node-before-its-consumer", order, "parent %d after child %d" % (p, i))
        return res

    return h, judge


# ------------------------------------------------------------------ accumulation patterns on ARRAY values
# Scalars are immutable, so the graphs above cannot see how the backward pass owns / shares its accumulation buffers.  Here the
# same chain rule runs on (2,) arrays through the shipped NumPy rules, over a skeleton  p = sin x, q = cos x, s = A (+|-) B  whose sum
# node passes its cotangent through unchanged, and an output that adds up to k terms in every order and association.

ACC_SKELETONS = ["p + q", "q + p", "x + p", "p + x", "p + p", "p - q", "np.add(q, p)", "(p + q) + x"]
ACC_TERMS = {
    "ss": "np.sum(s * s)", "s1": "np.sum(s)", "sp": "np.sum(s * p)", "p3": "np.sum(p * 3.0)", "q5": "np.sum(q * 5.0)", "pq": "np.sum(p * q)",
    "sins": "np.sum(np.sin(s))", "xx": "np.sum(x * x)", "sxs": "np.sum((s + x) * s)",
    "dd": "np.dot(s, s)",         # the same traced value in both slots of a bilinear primitive
}


def accum_factory(quick, seed):
    import numpy as onp
    import autograd
    import autograd.numpy as anp
    from .. import symref as S
    kmax = 3 if quick else 4
    x0 = onp.array([0.3 + 0.01 * (seed % 7), -1.2])

    class _SymNp:
        sin = staticmethod(S.sin)
        cos = staticmethod(lambda a: S.Fn("cos", S.lift(a)))
        sum = staticmethod(lambda a: a)
        add = staticmethod(lambda a, b: a + b)
        dot = staticmethod(lambda a, b: a * b)      # per component: the reference is evaluated one component at a time

    def h(ch):
        skel = ch.choose("s", ACC_SKELETONS)
        k = ch.choose("nterms", list(range(1, kmax + 1)))
        names = [ch.choose("term%d" % i, sorted(ACC_TERMS)) for i in range(k)]
        assoc = ch.choose("assoc", ["left", "right"] if k > 2 else ["left"])
        parts = [ACC_TERMS[t] for t in names]
        if assoc == "left":
            out = parts[0]
            for t in parts[1:]:
                out = "(%s + %s)" % (out, t)
        else:
            out = parts[-1]
            for t in reversed(parts[:-1]):
                out = "(%s + %s)" % (t, out)
        src = "(lambda p, q: (lambda s: %s)(%s))(np.sin(x), np.cos(x))" % (out, skel)
        f = eval("lambda x: " + src, dict(np=anp))
        xv = S.Var("x")
        want = [eval(src, dict(np=_SymNp, x=xv)).d("x").ev({"x": float(c)}) for c in x0]
        obs = {}
        x = x0.copy()
        x.flags.writeable = False
        with warnings.catch_warnings():
            warnings.simplefilter("ignore")
            try:
                obs["rev"] = onp.asarray(autograd.grad(f)(x)).tolist()
                vjp, _ = autograd.make_vjp(f)(x)
                obs["vjp_twice"] = [onp.asarray(vjp(2.0)).tolist(), onp.asarray(vjp(1.0)).tolist()]
                obs["fwd"] = [float(autograd.make_jvp(f)(x)(e)[1]) for e in onp.eye(2)]
            except Exception as e:
                obs["exc"] = "%s: %s" % (type(e).__name__, str(e)[:100])
        return skel, names, assoc, src, want, obs

    def judge(ch, out):
        import numpy as onp
        skel, names, assoc, src, want, obs = out
        feats = dict(skeleton=skel, nterms=len(names), assoc=assoc)
        res = dict(v=[], nontrivial=len(names) > 1, outcome=tuple(round(w, 9) for w in want), counts={},
                   sample=dict(choices=list(ch.choices), program="lambda x: " + src, expected=want))
        repro = "import autograd, autograd.numpy as np, numpy as onp\nf = lambda x: %s\nprint(autograd.grad(f)(onp.array(%r)), 'expected', %r)" % (src, x0.tolist(), want)
        V = lambda mode, kind, got, w: res["v"].append(violation(PROP, "accum", "-", mode, kind, feats, ch.choices, dict(program=src), got, w, repro))
        if "exc" in obs:
            V("rev+fwd", "raised", obs["exc"], None)
            return res
        ok = lambda a, b: onp.allclose(a, b, rtol=1e-12, atol=1e-12)
        if not ok(obs["rev"], want):
            V("rev", "wrong-gradient", obs["rev"], want)
        if not (ok(obs["vjp_twice"][0], [2 * w for w in want]) and ok(obs["vjp_twice"][1], want)):
            V("rev", "pull-back-called-twice-differs", obs["vjp_twice"], want)
        if not ok(obs["fwd"], want):
            V("fwd", "wrong-gradient", obs["fwd"], want)
        return res

    return h, judge


HARNESSES = {"graphs": graphs_factory, "cflow": cflow_factory, "topo": topo_factory, "accum": accum_factory}


def run(ctx):
    rep = Report("exploration")
    with ctx.pool() as pool:
        run_harness(ctx, rep, __name__, "graphs", depth=6 if ctx.quick else 8, pool=pool)
        run_harness(ctx, rep, __name__, "cflow", depth=3, pool=pool)
        run_harness(ctx, rep, __name__, "topo", depth=4 if ctx.quick else 5, pool=pool)
        run_harness(ctx, rep, __name__, "accum", depth=3, pool=pool)
    rep.add(bound="graphs n<=%d ops; cflow <=%d statements; toposort DAGs <=%d nodes, parent multisets <=3" % (
        (4, 2, 5) if ctx.quick else (5, 3, 6)),
        rule="graphs: every straight-line program over u,b (operands x/k/earlier, every output position), non-trivial = "
             ">=2 live ops or a multi-edge; cflow: every statement list over if/while/rec/closure x op x threshold x input, "
             "non-trivial = some branch/loop actually taken; topo: every parent-multiset DAG, non-trivial = >=3 reachable nodes")
    rep.assumptions = ["scalar data; user primitives u,b registered through autograd.extend (graphs/cflow); (2,) arrays through the shipped "
                       "NumPy rules for the accumulation patterns (skeletons %r, <=%d terms from %r)" % (ACC_SKELETONS, 3 if ctx.quick else 4, sorted(ACC_TERMS)),
                       "reference = literal reverse sweep / dual numbers in plain Python (math module only)",
                       "tolerance 1e-12 relative"]
    return rep


def replay(ctx, v):
    return replay_generic(__name__, ctx, v)
