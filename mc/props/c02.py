"""C02 - forward-mode derivatives exact for every call configuration (catalogue walk)."""
from ..judges import harness_table, run_catalog
from ..par import replay_generic
from ..kinks import factory as kinks_factory

PROP = "C02"
HARNESSES = harness_table(PROP, families=("U", "B", "R", "S", "K", "W", "L"))

HARNESSES["kinks"] = kinks_factory(PROP, "fwd")


def run(ctx):
    rep = run_catalog(ctx, __name__, HARNESSES)
    rep.add(rule="one leaf = (primitive spec, point, every spec choice, differentiated argnum); the whole forward Jacobian (all basis tangents) is compared with the trust-tested numerical Jacobian of NumPy and every tangent must have the output's real-coordinate size; non-trivial = Jacobian with more than one entry and not identically zero",
            bound="quick: rank<=2 dims {1,2,3} + rank 3 dims {1,2}, 1 point; thorough: rank<=3 dims {1,2,3} + rank 4 dims {1,2}, 2 points")
    rep.assumptions = ['finite point alphabet', 'oracle: 6th-order Richardson differences of plain NumPy with trust test; tolerance 1e-6 relative', 'raising is an allowed outcome (counted)']
    return rep


def replay(ctx, v):
    return replay_generic(__name__, ctx, v)
