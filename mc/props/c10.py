"""C10 - differentiation never writes to memory it does not own; VJP/JVP functions are reusable.

Programs: all straight-line array programs with n <= 2 (quick) / 3 (thorough) shape-preserving ops (dense, sparse-index,
view) over the input x, a captured constant C and earlier results; every result position (or a tuple of two) as output.
Histories: every sequence of 3 calls over a two-(co)tangent alphabet on ONE vjp / jvp function (prefixes cover the shorter
sequences).  Everything handed in is a read-only array and is byte-snapshotted.
Oracle: no write fault, no snapshot difference, every call's result bit-identical to a fresh single call, earlier
results unchanged by later calls.
"""
import itertools
import warnings

import numpy as onp

from ..findings import violation
from ..explore import Skip
from ..par import replay_generic, run_harnesses
from ..runner import Report

PROP = "C10"
_L = {}


def lib():
    if not _L:
        import autograd
        import autograd.numpy as anp
        import autograd.builtins as ab
        _L.update(ag=autograd, np=anp, ab=ab)
    return _L


UNARY = ["sin(%s)", "%s[::-1]", "%s[PERM]", "%s * C", "%s + 0.5", "np.reshape(np.ravel(%s), SHAPE)", "%s[REP]", "np.transpose(np.transpose(%s))"]
BINARY = ["%s + %s", "%s * %s"]


def ro(a):
    a = onp.array(a, dtype=float)
    a.flags.writeable = False
    return a


def programs_factory(quick, seed):
    L = lib()
    ag, np, ab = L["ag"], L["np"], L["ab"]
    nmax = 2 if quick else 3

    def h(ch):
        shape = ch.choose("shape", [(2,), (2, 3)])
        n = ch.choose("n", list(range(1, nmax + 1)))
        lines = []
        for i in range(n):
            operands = ["x", "C"] + ["v%d" % j for j in range(i)]
            arity = ch.choose("arity%d" % i, [1, 2])
            if arity == 1:
                op = ch.choose("op%d" % i, UNARY)
                a = ch.choose("a%d" % i, operands)
                lines.append("v%d = %s" % (i, op % a))
            else:
                op = ch.choose("op%d" % i, BINARY)
                a = ch.choose("a%d" % i, operands)
                b = ch.choose("b%d" % i, operands)
                lines.append("v%d = %s" % (i, op % (a, b)))
        outs = ["v%d" % i for i in range(n - 1, -1, -1)] + ["x"] + (["T(v0, v%d)" % (n - 1), "T(x, v0)"])
        out = ch.choose("out", outs)
        hist = ch.choose("history", list(itertools.product([0, 1], repeat=3)))
        src = "def f(x):\n" + "".join("    %s\n" % l for l in lines) + "    return %s\n" % out
        size = int(onp.prod(shape))
        xv = ro((onp.modf((onp.arange(size) + 1 + seed) * 0.6180339887)[0] + 0.4).reshape(shape))
        Cv = ro((onp.modf((onp.arange(size) + 3) * 0.7548776662)[0] - 1.3).reshape(shape))
        PERM = onp.array([1, 0]); PERM.flags.writeable = False
        REP = onp.array([0, 0]); REP.flags.writeable = False
        ns = dict(np=np, sin=np.sin, C=Cv, SHAPE=shape, PERM=PERM, REP=REP, T=lambda a, b: ab.tuple((a, b)))
        exec(src, ns)
        f = ns["f"]
        tup = out.startswith("T(")
        cots = [ro(onp.full(shape, 1.0) + onp.arange(size).reshape(shape) * 0.25), ro(onp.cos(onp.arange(size).reshape(shape) + 1.0))]
        if tup:
            cots = [(cots[0], cots[1]), (cots[1], cots[0])]
        tans = [ro(onp.ones(shape)), ro(onp.sin(onp.arange(size).reshape(shape) + 2.0))]
        snaps = lambda: [xv.tobytes(), Cv.tobytes(), PERM.tobytes(), REP.tobytes()] + [c.tobytes() for ct in (cots if not tup else [c for p in cots for c in [p]]) for c in (ct if isinstance(ct, tuple) else (ct,))] + [t.tobytes() for t in tans]
        s0 = snaps()
        obs = dict(problems=[])
        tob = lambda r: tuple(onp.asarray(c).tobytes() for c in r) if isinstance(r, (tuple, list)) else onp.asarray(r).tobytes()
        with warnings.catch_warnings():
            warnings.simplefilter("ignore")
            try:
                # references: a fresh vjp / jvp function and a single call, per (co)tangent
                ref_v = [tob(ag.make_vjp(f)(xv)[0](c)) for c in cots]
                ref_j = [tob(ag.make_jvp(f)(xv)(t)[1]) for t in tans]
                vjp, val = ag.make_vjp(f)(xv)
                jvp = ag.make_jvp(f)(xv)
                val_bytes = tob(val)
                kept = []
                for step, k in enumerate(hist):
                    r = vjp(cots[k])
                    if tob(r) != ref_v[k]:
                        obs["problems"].append(("vjp-call-%d-differs-from-fresh-call" % step, None))
                    for (rr, bb) in kept:
                        if tob(rr) != bb:
                            obs["problems"].append(("earlier-vjp-result-modified-by-call-%d" % step, None))
                    kept.append((r, tob(r)))
                    if isinstance(r, onp.ndarray) and any(onp.shares_memory(r, z) for z in (xv, Cv) + tuple(c for ct in cots for c in (ct if isinstance(ct, tuple) else (ct,)))):
                        # sharing is allowed only if nobody writes; writing is what the other checks catch.  Record for the evidence.
                        obs["shares_memory"] = True
                keptj = []
                for step, k in enumerate(hist):
                    pv, t = jvp(tans[k])
                    if tob(t) != ref_j[k]:
                        obs["problems"].append(("jvp-call-%d-differs-from-fresh-call" % step, None))
                    for (rr, bb) in keptj:
                        if tob(rr) != bb:
                            obs["problems"].append(("earlier-jvp-result-modified-by-call-%d" % step, None))
                    keptj.append((t, tob(t)))
                if tob(val) != val_bytes:
                    obs["problems"].append(("primal-result-modified-later", None))
                if not tup:
                    J1 = onp.asarray(ag.jacobian(f)(xv))
                    J2 = onp.asarray(ag.jacobian(f)(xv))
                    if J1.tobytes() != J2.tobytes():
                        obs["problems"].append(("jacobian-not-repeatable", None))
            except ValueError as e:
                if "read-only" in str(e) or "not writeable" in str(e).lower():
                    obs["problems"].append(("write-to-read-only-memory", str(e)[:100]))
                else:
                    obs["exc"] = "ValueError: %s" % str(e)[:100]
            except Exception as e:
                obs["exc"] = "%s: %s" % (type(e).__name__, str(e)[:100])
        if snaps() != s0:
            obs["problems"].append(("input-constant-or-cotangent-bytes-changed", None))
        sparse = sum(l.count("[") for l in lines)
        fan = sum(1 for i in range(n) for l in lines[i + 1:] if ("v%d" % i) in l) + sum(l.count("x") for l in lines)
        return src, hist, obs, dict(n=n, sparse_uses=sparse, fanout=fan, tuple_out=tup, rank=len(shape))

    def judge(ch, out):
        src, hist, obs, meta = out
        feats = dict(n=meta["n"], sparse=meta["sparse_uses"] > 0, tuple_out=meta["tuple_out"], rank=meta["rank"])
        res = dict(v=[], nontrivial=bool(meta["sparse_uses"] or meta["fanout"] > 1), outcome=(meta["sparse_uses"], meta["fanout"], bool(obs.get("shares_memory"))),
                   counts={"shares_memory_with_inputs": int(bool(obs.get("shares_memory")))},
                   sample=dict(choices=list(ch.choices), program=src, history=list(hist), problems=[p[0] for p in obs["problems"]]))
        repro = "# read-only x, C, cotangents; history of cotangent indices %r on one vjp function\n%s" % (list(hist), src)
        seen = set()
        for kind, detail in obs["problems"]:
            k2 = kind.split("-call-")[0] if "-call-" in kind else kind
            if k2 in seen:
                continue
            seen.add(k2)
            res["v"].append(violation(PROP, "programs", "-", "jvp" if "jvp" in kind else "vjp", k2, feats, ch.choices, dict(program=src, history=list(hist)), kind, detail, repro))
        if "exc" in obs:   # every program here is supported
            res["v"].append(violation(PROP, "programs", "-", "-", "raised", feats, ch.choices, dict(program=src), obs["exc"], None, repro))
        return res

    return h, judge


# ------------------------------------------------------------------ every catalogue primitive's VJP / JVP with read-only (co)tangents

def _freeze(v):
    if isinstance(v, onp.ndarray):
        v = v.copy()
        v.flags.writeable = False
        return v
    if isinstance(v, dict):
        return {k: _freeze(x) for k, x in v.items()}
    if isinstance(v, (tuple, list)):
        out = [_freeze(x) for x in v]
        if isinstance(v, tuple) and hasattr(v, "_fields"):
            return type(v)(*out)
        return type(v)(out)
    return v


def _bytes(v):
    if isinstance(v, dict):
        return tuple(_bytes(x) for x in v.values())
    if isinstance(v, (tuple, list)):
        return tuple(_bytes(x) for x in v)
    a = onp.asarray(v)
    if a.dtype in (onp.dtype("longdouble"), onp.dtype("clongdouble")):      # x87 padding bytes are uninitialised: compare the values' exact repr
        return (a.shape, str(a.dtype), repr(a.tolist()))
    return (a.shape, str(a.dtype), a.tobytes())


def catmem_harness(spec_name, spec_fn, T):
    from .. import walk as W
    from ..explore import Skip

    def h(ch):
        Tk = T.at(0)
        if T.cplx:
            Tk.pattern = ch.choose("complex_operands", ["rc", "c"])
        case = spec_fn(ch, Tk)
        if case is None:
            raise Skip("spec declined")
        opts = [o for o in W.argnum_options(case) if o != "same"]
        which = ch.choose("argnum", opts)
        A = W.ag()
        ag, vspace = A["autograd"], A["vspace"]
        f = case.fn()
        names = list(case.ops)
        vals = [_freeze(case.ops[n]) for n in names]
        argnum = which[0] if len(which) == 1 else tuple(which)
        problems = []
        with warnings.catch_warnings():
            warnings.simplefilter("ignore")
            with onp.errstate(all="ignore"):
                try:
                    f(W.NPX, *vals)
                except Exception:
                    raise Skip("NumPy rejects")
                fa = lambda *a: f(A["anp"], *a)
                before = _bytes(vals)
                try:
                    vjp, val = ag.make_vjp(fa, argnum)(*vals)
                    if W._has_box(val, A):
                        raise Skip("tracer in primal (C06)")
                    vs = vspace(val)
                    cots = [vs.ones(), vs.scalar_mul(vs.ones(), 0.37)] + list(vs.standard_basis())[:1]
                    for ct in cots:
                        ct = _freeze(ct)
                        b0 = _bytes(ct)
                        r1 = vjp(ct)
                        k1 = _bytes(r1)
                        r2 = vjp(ct)
                        if _bytes(ct) != b0:
                            problems.append("cotangent-bytes-changed")
                        if _bytes(r2) != k1:
                            problems.append("second-vjp-call-differs")
                        if _bytes(r1) != k1:
                            problems.append("earlier-result-modified")
                    if _bytes(val) != _bytes(f(W.NPX, *vals)) and False:
                        problems.append("primal-modified")
                except Skip:
                    raise
                except ValueError as e:
                    if "read-only" in str(e) or "not writeable" in str(e).lower() or "WRITEABLE" in str(e):
                        problems.append("write-to-read-only-memory: " + str(e)[:80])
                except Exception:
                    pass        # unsupported / raising configurations are C01's and C15's subject
                try:
                    x = vals[which[0]] if len(which) == 1 else tuple(vals[i] for i in which)
                    jvp = ag.make_jvp(fa, argnum)(*vals)
                    xs = vspace(x)
                    for tg in (xs.ones(), xs.scalar_mul(xs.ones(), -1.3)):
                        tg = _freeze(tg)
                        b0 = _bytes(tg)
                        t1 = jvp(tg)[1]
                        k1 = _bytes(t1)
                        t2 = jvp(tg)[1]
                        if _bytes(tg) != b0:
                            problems.append("tangent-bytes-changed")
                        if _bytes(t2) != k1 or _bytes(t1) != k1:
                            problems.append("second-jvp-call-differs")
                except ValueError as e:
                    if "read-only" in str(e) or "not writeable" in str(e).lower():
                        problems.append("write-to-read-only-memory (forward): " + str(e)[:80])
                except Exception:
                    pass
                if _bytes(vals) != before:
                    problems.append("input-bytes-changed")
        return case, which, sorted(set(problems))

    def judge(ch, out):
        case, which, problems = out
        v = []
        for pr in problems:
            v.append(W.mk_violation(PROP, spec_name, ch, case, which, "jvp" if "jvp" in pr or "tangent-" in pr or "forward" in pr else "vjp", pr.split(":")[0], pr, None))
        return dict(v=v, nontrivial=True, outcome=(case.name, tuple(problems)), counts={"clean": int(not problems)},
                    sample=dict(choices=list(ch.choices), prim=case.name, expr=case.expr, problems=problems))

    return h, judge


def _cat_table():
    from .. import judges as J
    from ..catalog.base import Tier
    table = {}
    for name, (fn, fam) in J.load_catalog().items():
        def factory(quick, seed, name=name, fn=fn, fam=fam):
            return catmem_harness(name, fn, Tier(quick, seed, reduced=True, cplx=(fam == "F")))
        table["cat:" + name] = factory
    return table


# ------------------------------------------------------------------ container inputs: slices and repeated positions

def _to64(v):
    if isinstance(v, onp.ndarray):
        return v.astype(onp.float64)
    if isinstance(v, dict):
        return {k: _to64(x) for k, x in v.items()}
    if isinstance(v, (tuple, list)):
        return type(v)(_to64(x) for x in v)
    return v


def containers_factory(quick, seed):
    L = lib()
    ag, np, ab = L["ag"], L["np"], L["ab"]
    OUTS = ["T(x[0:2], x[0])", "T(x[0:2], x[1:3])", "T(x[1:], x[:2], x[::2])", "T(x[0], x[0])", "T(x[::-1], x[2])", "T(x[:2], x[:2])",
            "T(x[0:2] + T(x[2]), x[1])", "T(T(x[1]) + x[0:2], x[0])", "np.sum(x[0]) * x[1] + x[0]", "T(x[0:1], x[-1], x[0])",
            # the container itself (a dense container contribution) together with uses of its elements
            "T(x, x[0])", "x + T(x[0] * x[1])", "T(x[1]) + x", "T(x, x)", "T(x[0] * x[1], x)", "T(x, x[0:2], x[2])",
            # array-valued outputs: the caller's cotangent ARRAY reaches several reads of the same leaf unchanged
            "x[0] + x[0]", "x[0] + 3.0 * x[0]", "x[1] + x[0] + x[1]", "x[-1] + x[2]",
            # three and four dense container contributions to one container value
            "T(x, x, x)", "T(x + T(x[0]), T(x[1]) + x, x + T(x[2]))", "T(x, x + T(x[0] * x[1]), x, x)"]

    def h(ch):
        kind = ch.choose("container", ["tuple", "list"])
        out = ch.choose("out", OUTS)
        hist = ch.choose("history", list(itertools.product([0, 1], repeat=3)))
        leaf_kind = ch.choose("leaf_dtype", ["float64", "float32-first", "float32-all"])
        leaves = [ro(onp.array([0.5, -1.0]) + i) for i in range(3)]
        if leaf_kind != "float64":      # reduced-precision leaves meet float64 cotangents: no rule may swap the roles of accumulator and contribution
            leaves = [_freeze(l.astype(onp.float32)) if (i == 0 or leaf_kind == "float32-all") else l for i, l in enumerate(leaves)]
        x = tuple(leaves) if kind == "tuple" else list(leaves)
        f = eval("lambda x: " + out, dict(np=np, T=lambda *a: ab.tuple(a)))
        problems = []
        with warnings.catch_warnings():
            warnings.simplefilter("ignore")
            try:
                val = f(x)
            except Exception:
                from ..explore import Skip
                raise Skip("the program itself is invalid for this container type")
            try:
                from autograd.core import vspace
                vs = vspace(val)
                cots = [_freeze(vs.ones()), _freeze(vs.scalar_mul(vs.ones(), 2.5))]
                if leaf_kind != "float64":
                    cots = [_freeze(_to64(c)) for c in cots]      # the caller hands in float64 cotangents
                ref = [_bytes(ag.make_vjp(f)(x)[0](c)) for c in cots]
                vjp, _ = ag.make_vjp(f)(x)
                snaps = [_bytes(c) for c in cots]
                kept = []
                for step, k in enumerate(hist):
                    r = vjp(cots[k])
                    if _bytes(r) != ref[k]:
                        problems.append("vjp-call-differs-from-fresh-call")
                    for rr, bb in kept:
                        if _bytes(rr) != bb:
                            problems.append("earlier-vjp-result-modified")
                    kept.append((r, _bytes(r)))
                    if [_bytes(c) for c in cots] != snaps:
                        problems.append("cotangent-bytes-changed")
                if _bytes(x) != _bytes(tuple(leaves)):
                    problems.append("input-bytes-changed")
            except ValueError as e:
                if "read-only" in str(e) or "not writeable" in str(e).lower():
                    problems.append("write-to-read-only-memory")
                else:
                    problems.append("raised: " + str(e)[:80])
            except Exception as e:
                problems.append("raised: %s: %s" % (type(e).__name__, str(e)[:80]))
        return kind, out, hist, sorted(set(problems)), leaf_kind

    def judge(ch, o):
        kind, out, hist, problems, leaf_kind = o
        v = [violation(PROP, "containers", "-", "vjp", pr.split(":")[0], dict(container=kind, leaf_dtype=leaf_kind), ch.choices, dict(out=out, history=list(hist), leaf_dtype=leaf_kind), pr, None,
                       "# container input (3 read-only (2,) arrays), f = lambda x: %s, vjp history %r" % (out, list(hist))) for pr in problems]
        return dict(v=v, nontrivial=True, outcome=(out, tuple(problems)), counts={}, sample=dict(choices=list(ch.choices), f="lambda x: " + out, history=list(hist), problems=problems))

    return h, judge


def captured_factory(quick, seed):
    """Index arrays / masks / weight arrays that the differentiated function merely CAPTURES (closure constants): they must stay
    bit-for-bit unchanged - once with writeable constants (a silent write would go unnoticed otherwise) and once frozen (a write raises)."""
    L = lib()
    ag, np = L["ag"], L["np"]
    IDX = {
        "int1d": "onp.array([1, 3, 1])", "neg1d": "onp.array([-1, 3, -4])", "negrep": "onp.array([-1, -1, 0])", "int2d": "onp.array([[0, -1], [2, 2]])",
        "mask": "onp.array([True, False, True, True, False])", "int32": "onp.array([-2, 4], dtype=onp.int32)", "tuple2": "(onp.array([0, -1]), onp.array([-1, 1]))",
        "rowneg": "(onp.array([-1, 0]), slice(None))", "intp0d": "onp.array(-2)", "uint8": "onp.array([4, 0, 4], dtype=onp.uint8)",
    }
    FORMS = ["x[idx]", "x[idx] * 2.0 + x[idx]", "x[idx][::-1]", "np.sin(x)[idx]", "x[idx] * x[idx]"]     # (np.take has no reverse rule: loud)

    def h(ch):
        iname = ch.choose("index", sorted(IDX))
        form = ch.choose("form", FORMS)
        shape = ch.choose("shape", [(5,), (5, 2)])
        frozen = ch.flag("frozen_constants")
        op = ch.choose("operator", ["grad", "vjp-twice", "jvp", "hessian-diag"])
        if form.startswith("np.take") and iname in ("mask", "tuple2", "rowneg"):
            raise Skip("np.take needs integer positions")
        if iname in ("tuple2", "rowneg") and len(shape) == 1:
            raise Skip("two-axis index")
        idx = eval(IDX[iname], dict(onp=onp, slice=slice))
        parts = list(idx) if isinstance(idx, tuple) else [idx]
        arrs = [a for a in parts if isinstance(a, onp.ndarray)]
        if frozen:
            for a in arrs:
                a.flags.writeable = False
        snaps = [(a.shape, str(a.dtype), a.tobytes()) for a in arrs]
        n = int(onp.prod(shape))
        x = ro((onp.modf((onp.arange(n) + 1 + seed) * 0.6180339887)[0] + 0.5).reshape(shape))
        f = eval("lambda x: np.sum((%s) ** 2)" % form, dict(np=np, idx=idx, onp=onp))
        fplain = eval("lambda x: onp.sum((%s) ** 2)" % form.replace("np.", "onp."), dict(idx=eval(IDX[iname], dict(onp=onp, slice=slice)), onp=onp))
        problems = []
        with warnings.catch_warnings():
            warnings.simplefilter("ignore")
            try:
                fplain(x)
            except Exception:
                raise Skip("NumPy rejects")
            try:
                if op == "grad":
                    g = ag.grad(f)(x)
                elif op == "vjp-twice":
                    vjp, _ = ag.make_vjp(f)(x)
                    g = vjp(1.0)
                    g2 = vjp(1.0)
                    if _bytes(g) != _bytes(g2):
                        problems.append("second-vjp-call-differs")
                elif op == "jvp":
                    g = None
                    ag.make_jvp(f)(x)(onp.ones(shape))
                else:
                    g = None
                    ag.make_hvp(f)(x)[0](onp.ones(shape))
                if g is not None:
                    eps = 1e-6
                    fd = onp.array([(fplain(x + eps * e.reshape(shape)) - fplain(x - eps * e.reshape(shape))) / (2 * eps) for e in onp.eye(n)]).reshape(shape)
                    if not onp.allclose(g, fd, rtol=1e-6, atol=1e-6):
                        problems.append("wrong-gradient")
                # the captured constants afterwards, and the function evaluated again through plain NumPy semantics
                if [(a.shape, str(a.dtype), a.tobytes()) for a in arrs] != snaps:
                    problems.append("captured-index-bytes-changed")
            except ValueError as e:
                if "read-only" in str(e) or "not writeable" in str(e).lower():
                    problems.append("write-to-read-only-memory")
                else:
                    problems.append("raised: " + str(e)[:80])
            except Exception as e:
                problems.append("raised: %s: %s" % (type(e).__name__, str(e)[:80]))
        return iname, form, shape, frozen, op, sorted(set(problems))

    def judge(ch, o):
        iname, form, shape, frozen, op, problems = o
        desc = dict(index=IDX[iname], form=form, shape=list(shape), frozen=frozen, operator=op)
        v = [violation(PROP, "captured", "-", op, pr.split(":")[0], dict(index=iname, frozen=frozen, form=form), ch.choices, desc, pr, None,
                       "# idx = %s captured by f = lambda x: np.sum((%s) ** 2); x of shape %r; %s" % (IDX[iname], form, shape, op)) for pr in problems]
        return dict(v=v, nontrivial=True, outcome=(iname, form, tuple(problems)), counts={}, sample=dict(choices=list(ch.choices), **desc))

    return h, judge


HARNESSES = {"programs": programs_factory, "containers": containers_factory, "captured": captured_factory}
HARNESSES.update(_cat_table())


def run(ctx):
    rep = Report("exploration")
    run_harnesses(ctx, rep, __name__, ["programs"], depth=4 if ctx.quick else 6)
    run_harnesses(ctx, rep, __name__, ["containers", "captured"] + [h for h in HARNESSES if h.startswith("cat:")], depth=2)
    rep.add(rule="leaf = (shape, program of n<=%d ops over 8 unary / 2 binary op forms with operands from x, C, earlier results, "
                 "output position or tuple, 3-call history over 2 (co)tangents); non-trivial = sparse use or fan-out > 1" % (2 if ctx.quick else 3))
    rep.assumptions = ["shapes (2,), (2,3); every array handed in is writeable=False and byte-snapshotted",
                       "results are compared bit-for-bit with a fresh vjp/jvp function's single call"]
    return rep


def replay(ctx, v):
    return replay_generic(__name__, ctx, v)
