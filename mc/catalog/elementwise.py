"""Families U (unary element-wise), B (binary element-wise + operators) and R (reductions)."""
import numpy as onp

from .. import alphabets as A
from ..walk import Case
from .base import spec

UNARY = {
    # name: (lo, hi)  regular domain
    "negative": (0.3, 1.7), "abs": (0.3, 1.7), "absolute": (0.3, 1.7), "fabs": (0.3, 1.7), "reciprocal": (0.3, 1.7),
    "exp": (0.3, 1.7), "exp2": (0.3, 1.7), "expm1": (0.3, 1.7), "log": (0.3, 1.7), "log2": (0.3, 1.7), "log10": (0.3, 1.7),
    "log1p": (0.3, 1.7), "sin": (0.3, 1.7), "cos": (0.3, 1.7), "tan": (-1.2, 1.2), "arcsin": (-0.85, 0.85),
    "arccos": (-0.85, 0.85), "arctan": (0.3, 1.7), "sinh": (0.3, 1.7), "cosh": (0.3, 1.7), "tanh": (0.3, 1.7),
    "arcsinh": (0.3, 1.7), "arccosh": (1.2, 2.5), "arctanh": (-0.85, 0.85), "rad2deg": (0.3, 1.7), "degrees": (0.3, 1.7),
    "deg2rad": (0.3, 1.7), "radians": (0.3, 1.7), "square": (0.3, 1.7), "sqrt": (0.3, 1.7), "sinc": (0.15, 0.85),
    "real": (0.3, 1.7), "imag": (0.3, 1.7), "conj": (0.3, 1.7), "conjugate": (0.3, 1.7), "angle": (0.3, 1.7),
    "real_if_close": (0.3, 1.7), "nan_to_num": (0.3, 1.7),
}
NEG_DOMAIN = {"abs", "absolute", "fabs", "negative", "sin", "cos", "sinh", "cosh", "tanh", "arctan", "arcsinh", "square",
              "angle", "exp", "conj", "real"}


def _unary(name, lo, hi):
    @spec(name, "U")
    def s(ch, T, name=name, lo=lo, hi=hi):
        shape = ch.choose("shape", T.shapes())
        kind = ch.choose("kind", T.kinds_for(shape))
        forms = ["np.%s(x)" % name]
        if name == "negative":
            forms.append("-x")
        if name == "abs":
            forms.append("abs(x)")
        if name in ("conj", "conjugate") and kind == "arr":
            forms.append("x.%s()" % name)   # not delegated by ArrayBox: must raise or be right
        expr = ch.choose("form", forms)
        neg = name in NEG_DOMAIN and ch.flag("negative_domain")
        x = T.arr(shape, -hi if neg else lo, -lo if neg else hi, kind)
        return Case(name, expr, dict(x=x), dict(rank=len(shape), kind=kind, form=expr.split("(")[0]), family="U")
    return s


for _n, (_lo, _hi) in UNARY.items():
    _unary(_n, _lo, _hi)


BINARY = {
    # name: ((lo,hi) for x, (lo,hi) for y, operator or None)
    "add": ((0.3, 1.7), (0.3, 1.7), "+"), "subtract": ((0.3, 1.7), (0.3, 1.7), "-"), "multiply": ((0.3, 1.7), (0.3, 1.7), "*"),
    "divide": ((0.3, 1.7), (0.5, 1.7), "/"), "true_divide": ((0.3, 1.7), (0.5, 1.7), None),
    "maximum": ((0.3, 1.7), (0.3, 1.7), None), "minimum": ((0.3, 1.7), (0.3, 1.7), None),
    "fmax": ((0.3, 1.7), (0.3, 1.7), None), "fmin": ((0.3, 1.7), (0.3, 1.7), None),
    "logaddexp": ((0.3, 1.7), (0.3, 1.7), None), "logaddexp2": ((0.3, 1.7), (0.3, 1.7), None),
    "mod": ((2.4, 2.6), (1.0, 1.1), "%"), "remainder": ((2.4, 2.6), (1.0, 1.1), None),
    "power": ((0.5, 1.7), (0.3, 2.2), "**"), "arctan2": ((0.3, 1.7), (0.3, 1.7), None), "hypot": ((0.3, 1.7), (0.3, 1.7), None),
}


def _binary(name, dx, dy, op):
    @spec(name, "B")
    def s(ch, T, name=name, dx=dx, dy=dy, op=op):
        shs = T.shapes()
        # + zero-length dimensions broadcast against size-1 dimensions
        empties = [((1, 3), (0, 3)), ((0, 3), (1, 3)), ((3, 1), (3, 0)), ((1,), (0,)), ((0,), ()), ((2, 1, 1), (0, 3)), ((1, 1), (0, 0))]
        sa, sb = ch.choose("shapes", A.broadcast_pairs(shs) + empties)
        ka = ch.choose("kind_x", T.kinds_for(sa, mixing=True))
        kb = ch.choose("kind_y", T.kinds_for(sb, mixing=True))
        forms = ["np.%s(x, y)" % name] + (["x %s y" % op] if op else [])
        expr = ch.choose("form", forms)
        x, y = T.arr(sa, dx[0], dx[1], ka), T.arr(sb, dy[0], dy[1], kb)
        bro = "none" if sa == sb else ("rank" if len(sa) != len(sb) else "size1")
        inner1 = any(d == 1 for d in sa[1:]) or any(d == 1 for d in sb[1:])
        case = Case(name, expr, dict(x=x, y=y), dict(broadcast=bro, kinds=ka + "," + kb, form="op" if expr[0] == "x" else "func",
                                                     size1_nonleading=inner1), family="B")
        case.value_oracle = not ({"f32", "ld"} & {ka, kb})      # non-default precision: structure (C05) and primal (C06) only
        return case
    return s


for _n, (_dx, _dy, _op) in BINARY.items():
    _binary(_n, _dx, _dy, _op)


REDUCTIONS = ["sum", "mean", "prod", "var", "std", "max", "min", "amax", "amin"]
METHODS = {"sum", "mean", "prod", "var", "std", "max", "min", "cumsum"}


def _reduction(name):
    @spec(name, "R")
    def s(ch, T, name=name):
        shape = ch.choose("shape", T.shapes())
        nd = len(shape)
        kind = ch.choose("kind", T.kinds_for(shape))
        axis = ch.choose("axis", T.axes(nd))
        kd = ch.choose("keepdims", [None, False, True])
        extra = ""
        if name in ("var", "std"):
            ddof = ch.choose("ddof", [None, 1])
            if ddof is not None:
                extra = ", ddof=%d" % ddof
        style = ch.choose("style", ["kw", "pos"] if axis is not None else ["kw"])
        form = ch.choose("form", ["func", "method"] if (name in METHODS and kind == "arr") else ["func"])
        args = []
        atype = ch.choose("axis_type", ["int", "np.int64"]) if (isinstance(axis, int) and nd >= 2 and kd is None) else "int"
        ns, pre = {}, ""
        if atype != "int":
            ns, pre = dict(AXV=onp.int64(axis)), "AXV = onp.int64(%d)" % axis
            args.append("AXV" if style == "pos" else "axis=AXV")
        elif axis is not None:
            args.append(("%r" if style == "pos" else "axis=%r") % (axis,))
        if kd is not None:
            args.append("keepdims=%r" % kd)
        a = ", ".join(args) + extra
        a = a.lstrip(", ")
        expr = ("np.%s(x%s)" % (name, (", " + a) if a else "")) if form == "func" else ("x.%s(%s)" % (name, a))
        x = T.arr(shape, 0.3, 1.7, kind)
        feat = dict(rank=nd, axis_sign=A.sign_of(axis), keepdims=kd, form=form, style=style, kind=kind,
                    reduced_size=_rsize(shape, axis), axis_type=atype)
        return Case(name, expr, dict(x=x), feat, family="R", ns=ns, pre=pre)
    return s


def _rsize(shape, axis):
    if not shape:
        return "1"
    if axis is None:
        n = 1
        for d in shape:
            n *= d
    else:
        ax = axis if isinstance(axis, tuple) else (axis,)
        n = 1
        for a in ax:
            n *= shape[a]
    return A.dim_class(n)


for _n in REDUCTIONS:
    _reduction(_n)


@spec("cumsum", "R")
def s_cumsum(ch, T):
    shape = ch.choose("shape", T.shapes())
    nd = len(shape)
    kind = ch.choose("kind", T.kinds_for(shape))
    axis = ch.choose("axis", [None] + A.int_axes(nd))
    style = ch.choose("style", ["kw", "pos"] if axis is not None else ["kw"])
    form = ch.choose("form", ["func", "method"] if kind == "arr" else ["func"])
    # an axis computed by the caller is often a NumPy integer or a 0-d integer array rather than a Python int
    atype = ch.choose("axis_type", ["int", "np.int64", "0d-array"]) if (axis is not None and nd >= 2) else "int"
    ns, pre = {}, ""
    if atype != "int":
        ns = dict(AXV=(onp.int64(axis) if atype == "np.int64" else onp.array(axis)))
        pre = "AXV = %s" % ("onp.int64(%d)" % axis if atype == "np.int64" else "onp.array(%d)" % axis)
        a = "AXV" if style == "pos" else "axis=AXV"
    else:
        a = "" if axis is None else (("%r" if style == "pos" else "axis=%r") % axis)
    expr = ("np.cumsum(x%s)" % ((", " + a) if a else "")) if form == "func" else "x.cumsum(%s)" % a
    return Case("cumsum", expr, dict(x=T.arr(shape, kind=kind)), dict(rank=nd, axis_sign=A.sign_of(axis), form=form, kind=kind, axis_type=atype,
                                                                    axis=("none" if axis is None else ("zero" if axis == 0 else "nonzero"))), family="R",
                ns=ns, pre=pre)


@spec("power_special_exponent", "B")
def s_power_special(ch, T):
    """Exponents that invite fast paths or value-dependent guards (2, 1, 3, 0.5, -1, 0), given as Python / NumPy scalars, 0-d or full arrays."""
    shape = ch.choose("shape", [(), (2,), (2, 2)])
    kx = ch.choose("kind_x", T.kinds_for(shape))
    yv = ch.choose("exponent", [2.0, 1.0, 3.0, 0.5, -1.0, 0.0])
    ky = ch.choose("kind_y", ["py", "np", "0d", "arr"])
    form = ch.choose("form", ["np.power(x, y)", "x ** y"])
    y = {"py": float(yv), "np": onp.float64(yv), "0d": onp.array(yv), "arr": onp.full(shape if shape else (1,), yv)}[ky]
    return Case("power", form, dict(x=T.arr(shape, 0.5, 1.7, kx), y=y), dict(exponent=yv, kinds=kx + "," + ky, form="op" if form[0] == "x" else "func"), family="B")
