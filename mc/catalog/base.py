"""Tier object (alphabet sizes, operand construction) and the spec registry."""
import numpy as onp

from .. import alphabets as A
from .. import oracles as O

SPECS = {}      # name -> (fn, family)


def spec(name, family):
    def deco(fn):
        SPECS[name] = (fn, family)
        return fn
    return deco


class Tier:
    def __init__(self, quick, seed, cplx=False, reduced=False):
        self.quick, self.seed, self.cplx, self.reduced = quick, seed, cplx, reduced
        self.points = 1 if (reduced or quick) else 2
        self.k = 0
        self._n = 0
        self.pattern = "c"      # complex tier: which operands (in order of construction) are complex
        self.rank = 2 if reduced else (3 if quick else 4)
        self.dims = (1, 2) if reduced else (1, 2, 3)

    def at(self, k):
        t = Tier.__new__(Tier)
        t.__dict__.update(self.__dict__)
        t.k, t._n = k, 0
        return t

    # ---- alphabets
    def shapes(self, rank=None, min_rank=0, dims=None):
        """quick: rank<=2 over dims {1,2,3} + rank 3 over {1,2}; thorough: rank<=3 over {1,2,3} + rank 4 over {1,2}."""
        rank = self.rank if rank is None else min(rank, self.rank)
        dims = dims or self.dims
        if self.quick or self.reduced:
            out = A.shapes(min(rank, 2), dims, min_rank)
            if rank >= 3:
                out += A.shapes(3, (1, 2), max(3, min_rank))
            return out
        out = A.shapes(min(rank, 3), dims, min_rank)
        if rank >= 4:
            out += A.shapes(4, (1, 2), max(4, min_rank))
        return out

    def small_shapes(self, rank=2, min_rank=0, dims=(1, 2, 3)):
        return A.shapes(min(rank, self.rank), dims, min_rank)

    def axes(self, nd, tuples=True):
        return A.axes(nd, thorough=not self.quick, tuples=tuples)

    # ---- operands
    def arr(self, shape, lo=0.3, hi=1.7, kind="arr", cplx=None):
        """A generic operand value; each call within one leaf uses a different phase."""
        self._n += 1
        if cplx is None:
            cplx = self.cplx and self.pattern[(self._n - 1) % len(self.pattern)] == "c"
        v = O.fill(tuple(shape), self.k + 5 * self._n, lo, hi, self.seed, cplx=cplx)
        if kind == "arr" or kind == "0d":
            return onp.array(v)
        if kind == "py":
            return complex(v) if cplx else float(v)
        if kind == "np":
            return onp.complex128(v) if cplx else onp.float64(v)
        if kind == "f32":
            return onp.array(v, dtype=onp.complex64 if cplx else onp.float32)
        if kind == "ld":
            return onp.array(v, dtype=onp.clongdouble if cplx else onp.longdouble)
        raise KeyError(kind)

    def kinds_for(self, shape, mixing=False):
        """operand kinds; `mixing` (binary families, thorough tier) adds float32 arrays: structure/kind checks only"""
        out = ["arr"] if len(shape) else ["0d", "py", "np"]
        if mixing and ((not self.quick and not self.cplx and len(shape) in (0, 1, 2)) or (self.cplx and len(shape) == 1)):
            out.append("f32")       # float32 / complex64 arrays
            if len(shape) == 1:
                out.append("ld")    # longdouble / clongdouble arrays: a default-precision partner must still get a default-precision gradient
        return out


def rank_feat(shape):
    return dict(rank=len(shape))
