"""Family W: list-taking wrappers re-implemented by autograd.numpy (and a few that are not)."""
import numpy as onp

from .. import alphabets as A
from ..walk import Case
from .base import spec


@spec("concatenate", "W")
def s_concatenate(ch, T):
    shape = ch.choose("shape", T.shapes(None, 1))
    nd = len(shape)
    axis = ch.choose("axis", ["default"] + A.int_axes(nd) + [None])
    n = ch.choose("nargs", [2, 3, 1])
    style = ch.choose("style", ["kw", "pos"] if axis != "default" else ["kw"])
    cont = ch.choose("container", ["tuple", "list"])
    names = ["x", "y", "z"][:n]
    ops = {}
    for i, nm in enumerate(names):
        sh = list(shape)
        if axis not in ("default", None):
            sh[axis] = shape[axis] + (i % 2)          # unequal sizes along the joined axis
        elif axis == "default":
            sh[0] = shape[0] + (i % 2)
        ops[nm] = T.arr(tuple(sh))
    seq = ("(%s,)" if cont == "tuple" else "[%s]") % ", ".join(names)
    a = "" if axis == "default" else (", %r" % axis if style == "pos" else ", axis=%r" % axis)
    return Case("concatenate", "np.concatenate(%s%s)" % (seq, a), ops,
                dict(rank=nd, axis_sign=("default" if axis == "default" else A.sign_of(axis)), nargs=n, style=style), family="W")


@spec("stack", "W")
def s_stack(ch, T):
    shape = ch.choose("shape", T.shapes(2))
    nd = len(shape)
    axis = ch.choose("axis", ["default"] + list(range(0, nd + 1)) + list(range(-nd - 1, 0)))
    kinds = ch.choose("kind", T.kinds_for(shape))
    n = ch.choose("nargs", [2, 1])
    names = ["x", "y"][:n]
    ops = {nm: T.arr(shape, kind=kinds) for nm in names}
    a = "" if axis == "default" else ", axis=%d" % axis
    return Case("stack", "np.stack([%s]%s)" % (", ".join(names), a), ops,
                dict(rank=nd, axis_sign=("default" if axis == "default" else A.sign_of(axis)), kind=kinds), family="W")


def _xstack(name):
    @spec(name, "W")
    def s(ch, T, name=name):
        shape = ch.choose("shape", T.shapes(3 if name == "dstack" else 2))
        kind = ch.choose("kind", T.kinds_for(shape))
        mixed = ch.flag("second_operand_constant")
        x, y = T.arr(shape, kind=kind), T.arr(shape, kind=kind)
        if mixed:
            return Case(name, "np.%s((x, c))" % name, dict(x=x), dict(rank=len(shape), kind=kind, mixed=True),
                        ns=dict(c=y), pre="c = %r" % (y.tolist() if hasattr(y, "tolist") else y,), family="W")
        return Case(name, "np.%s((x, y))" % name, dict(x=x, y=y), dict(rank=len(shape), kind=kind, mixed=False), family="W")
    return s


for _n in ("vstack", "hstack", "column_stack", "dstack", "row_stack"):
    _xstack(_n)


@spec("append", "W")
def s_append(ch, T):
    shape = ch.choose("shape", T.shapes(2))
    nd = len(shape)
    axis = ch.choose("axis", [None] + A.int_axes(nd))
    kind = ch.choose("kind", T.kinds_for(shape))
    vshape = shape if axis is not None else ch.choose("values_shape", [shape, (2,), ()])
    vk = ch.choose("values_kind", T.kinds_for(vshape))
    a = "" if axis is None else ", axis=%d" % axis
    return Case("append", "np.append(x, y%s)" % a, dict(x=T.arr(shape, kind=kind), y=T.arr(vshape, kind=vk)),
                dict(rank=nd, axis_sign=A.sign_of(axis), kinds=kind + "," + vk), family="W")


@spec("array", "W")
def s_array(ch, T):
    form = ch.choose("form", ["np.array(x)", "np.array([x, y])", "np.array([[x, y], [y, x]])", "np.array((x, 2.0))",
                              "np.array(x, ndmin=2)", "np.array([x, y], ndmin=3)", "np.array(x, dtype=float)",
                              "np.array([x, y], dtype=np.float64)", "np.array(x, copy=True)", "np.array([x, [1.0, 2.0]][:1])",
                              "np.array([x])", "np.asarray(x) * 1.0"])
    shape = ch.choose("shape", T.shapes(2))
    kind = ch.choose("kind", T.kinds_for(shape))
    ops = dict(x=T.arr(shape, kind=kind))
    if "y" in form:
        ops["y"] = T.arr(shape, kind=kind)
    return Case("array", form, ops, dict(rank=len(shape), kind=kind, form=form[:24], ndmin="ndmin" in form, list_input="[" in form), family="W")


@spec("select", "W")
def s_select(ch, T):
    shape = ch.choose("shape", [(3,), (2, 3), ()])
    dflt = ch.choose("default", [None, "0.5", "z"])
    n = 1
    for d in shape:
        n *= d
    c1 = (onp.arange(n).reshape(shape) % 3 == 0)
    c2 = (onp.arange(n).reshape(shape) % 3 == 1)
    ops = dict(x=T.arr(shape, kind="arr" if shape else "0d"), y=T.arr(shape, kind="arr" if shape else "0d"))
    if dflt == "z":
        ops["z"] = T.arr((), kind="py")
    d = "" if dflt is None else ", default=%s" % dflt
    return Case("select", "np.select([c1, c2], [x, y]%s)" % d, ops, dict(rank=len(shape), default=dflt),
                ns=dict(c1=c1, c2=c2), pre="c1, c2 = array(%r), array(%r)" % (c1.tolist(), c2.tolist()), family="W")


@spec("r_c_", "W")
def s_rc(ch, T):
    form = ch.choose("form", ["np.r_[x, y]", "np.r_[x, 1.0, y]", "np.c_[x, y]", "np.r_[s, t]", "np.r_[x, s]", "np.c_[x, x]",
                              "np.r_['0,2', x, y]", "np.r_[x[0], x[1]]"])
    shape = ch.choose("shape", [(2,), (3,), (2, 2)])
    ops = dict(x=T.arr(shape), y=T.arr(shape))
    if "s" in form or "t" in form:
        ops["s"] = T.arr((), kind="py")
        ops["t"] = T.arr((), kind="py")
    used = {k: v for k, v in ops.items() if k in form.replace("np.", "")}
    return Case("r_" if "r_" in form else "c_", form, used, dict(form=form, rank=len(shape)), family="W")
