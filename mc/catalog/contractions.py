"""Family K: contractions (dot, matmul, inner, outer, kron, tensordot, cross, einsum)."""
import itertools

import numpy as onp

from .. import alphabets as A
from ..walk import Case
from .base import spec


def _pairs_accepted(fn, shs, limit=None):
    out = []
    for a in shs:
        for b in shs:
            try:
                fn(onp.ones(a), onp.ones(b))
            except Exception:
                continue
            out.append((a, b))
    return out


_CACHE = {}


def _cached(key, f):
    if key not in _CACHE:
        _CACHE[key] = f()
    return _CACHE[key]


def _kshapes(T):
    # contractions: rank <= 3 over dims {1,2} (+ {3} at rank <= 2 when thorough)
    shs = A.shapes(3, (1, 2))
    if not T.quick:
        shs += [s for s in A.shapes(2, (1, 2, 3)) if 3 in s] + A.shapes(4, (2,), 4)
    return shs


# a few operand pairs beyond the rank bound of the shape alphabet: the rules' axis juggling differs once an operand has rank >= 4 or the ranks
# differ by two (equal batch extents so that a mix-up keeps the shape)
HIGH_RANK = {
    "dot": [((2, 3), (2, 2, 3, 2)), ((2, 2, 3), (2, 2, 3, 2)), ((3,), (2, 2, 3, 2)), ((2, 2, 2, 3), (3, 2)), ((2, 2, 2, 3), (2, 3, 2))],
    "matmul": [((2, 3, 2, 3), (3, 3, 2)), ((2, 2, 2, 3), (2, 3, 2)), ((2, 2, 3), (2, 2, 3, 2)), ((2, 2, 2, 3), (3,)), ((3,), (2, 2, 3, 2)), ((2, 2, 2, 3), (3, 2))],
    "inner": [((2, 2, 2, 3), (2, 3)), ((2, 3), (2, 2, 2, 3))],
    "kron": [((2, 2, 2), (2, 2)), ((2, 2, 2), (2,)), ((2, 2, 2, 2), (2, 2))],
}


def _accepts(fn, pr):
    try:
        fn(onp.ones(pr[0]), onp.ones(pr[1]))
        return True
    except Exception:
        return False


def _contract(name, fn, op=None, min_rank=0):
    @spec(name, "K")
    def s(ch, T, name=name, fn=fn, op=op):
        shs = [s_ for s_ in _kshapes(T) if len(s_) >= min_rank]
        pairs = _cached((name, T.quick), lambda: _pairs_accepted(fn, shs) + [pr for pr in HIGH_RANK.get(name, []) if _accepts(fn, pr)])
        sa, sb = ch.choose("shapes", pairs)
        ka = ch.choose("kind_x", T.kinds_for(sa))
        kb = ch.choose("kind_y", T.kinds_for(sb))
        forms = ["np.%s(x, y)" % name] + (["x %s y" % op] if op else []) 
        expr = ch.choose("form", forms)
        return Case(name, expr, dict(x=T.arr(sa, kind=ka), y=T.arr(sb, kind=kb)),
                    dict(ranks="%d,%d" % (len(sa), len(sb)), kinds=ka + "," + kb, form=expr.split("(")[0][:6],
                         max_rank=max(len(sa), len(sb)), min_rank=min(len(sa), len(sb)), both_1d=(len(sa) == 1 and len(sb) == 1)), family="K")
    return s


_contract("dot", onp.dot)
_contract("matmul", onp.matmul, "@", 1)
_contract("inner", onp.inner)
_contract("outer", onp.outer)
_contract("kron", onp.kron)


@spec("tensordot", "K")
def s_tensordot(ch, T):
    shs = _kshapes(T)

    def options():
        out = []
        for a in shs:
            for b in shs:
                cands = [None, 0, 1, 2]
                na, nb = len(a), len(b)
                for k in (1, 2):
                    for ia in itertools.permutations(range(na), k):
                        for ib in itertools.permutations(range(nb), k):
                            cands.append((list(ia), list(ib)))
                            cands.append(([i - na for i in ia], [i - nb for i in ib]))
                    if k == 1:
                        cands += [(i, j) for i in range(-na, na) for j in range(-nb, nb)]
                for ax in cands:
                    try:
                        if ax is None:
                            onp.tensordot(onp.ones(a), onp.ones(b))
                        else:
                            onp.tensordot(onp.ones(a), onp.ones(b), ax)
                    except Exception:
                        continue
                    out.append((a, b, ax))
        return out

    opts = _cached(("tensordot", T.quick), options)
    if T.quick:
        opts = [o for i, o in enumerate(opts) if max(len(o[0]), len(o[1])) <= 2 or i % 5 == 0]
        if T.cplx:
            opts = opts[::3]        # the complex tier repeats every option for three operand patterns
    a, b, ax = ch.choose("shapes_axes", opts)
    style = ch.choose("style", ["pos", "kw"] if ax is not None else ["pos"])
    expr = "np.tensordot(x, y)" if ax is None else ("np.tensordot(x, y, %s%r)" % ("axes=" if style == "kw" else "", ax))
    axk = "default" if ax is None else ("int" if isinstance(ax, int) else ("intpair" if isinstance(ax[0], int) else "lists"))
    neg = ax is not None and not isinstance(ax, int) and any(i < 0 for i in (ax[0] if isinstance(ax[0], list) else [ax[0]]) + (ax[1] if isinstance(ax[1], list) else [ax[1]]))
    return Case("tensordot", expr, dict(x=T.arr(a), y=T.arr(b)), dict(ranks="%d,%d" % (len(a), len(b)), axes_kind=axk, negative=neg, style=style), family="K")


@spec("cross", "K")
def s_cross(ch, T):
    opts = []
    base = [((3,), (3,)), ((2,), (2,)), ((2,), (3,)), ((3,), (2,)), ((2, 3), (2, 3)), ((2, 3), (3,)), ((3,), (2, 3)),
            ((1, 3), (2, 3)), ((2, 2), (2, 2)), ((3, 2), (3, 2)), ((2, 2, 3), (2, 3))]
    for sa, sb in base:
        kws = [""]
        if len(sa) == 2 and len(sb) == 2:
            kws += [", axis=0" if sa[0] in (2, 3) and sb[0] in (2, 3) else "", ", axis=-1", ", axisa=-1, axisb=-1, axisc=0", ", axisc=-1"]
            if sa[0] in (2, 3) and sb[0] in (2, 3):
                kws += [", axisa=0, axisb=0", ", axisa=0, axisb=0, axisc=0"]
        for kw in sorted(set(kws)):
            try:
                eval("onp.cross(onp.ones(%r), onp.ones(%r)%s)" % (sa, sb, kw), dict(onp=onp))
            except Exception:
                continue
            opts.append((sa, sb, kw))
    sa, sb, kw = ch.choose("config", opts)
    return Case("cross", "np.cross(x, y%s)" % kw, dict(x=T.arr(sa), y=T.arr(sb)),
                dict(shapes="%s,%s" % (sa, sb), kwargs=kw.strip(", ") or "none", broadcast=(sa != sb), vec2=(2 in (sa[-1], sb[-1]))), family="K")


EINSUMS = [
    ("ii", [(2, 2)]), ("ii->i", [(3, 3)]), ("ij->ji", [(2, 3)]), ("ij->", [(2, 3)]), ("ij->j", [(2, 3)]), ("i,i", [(3,), (3,)]),
    ("i,j->ij", [(2,), (3,)]), ("ij,jk", [(2, 3), (3, 2)]), ("ij,jk->ik", [(2, 3), (3, 2)]), ("ij,ij->", [(2, 3), (2, 3)]),
    ("ij,j->i", [(2, 3), (3,)]), ("ij,kj->ik", [(2, 3), (2, 3)]), ("bij,bjk->bik", [(2, 2, 3), (2, 3, 2)]), ("ijk->kji", [(1, 2, 3)]),
    ("iij->j", [(2, 2, 3)]), ("i,i,i->i", [(3,), (3,), (3,)]), ("ij,jk,kl->il", [(2, 2), (2, 3), (3, 2)]), ("...ij->...ji", [(2, 2, 3)]),
    ("...i,...i->...", [(2, 3), (2, 3)]), ("...i,...i->...", [(2, 3), (3,)]), ("...i,...i->...", [(1, 3), (2, 3)]),
    ("i...,i...->...", [(3, 2), (3, 2)]), ("i...,i...->...", [(3, 2), (3,)]), ("...ij,...jk->...ik", [(2, 2, 3), (3, 2)]),
    ("...ij,...jk->...ik", [(2, 3), (2, 3, 2)]), ("i...j,j->i...", [(2, 2, 3), (3,)]), ("ij,j", [(2, 3), (3,)]), ("i,i->i", [(3,), (3,)]),
    ("ij,ij,ij->ij", [(2, 2), (2, 2), (2, 2)]), ("ijk,k->ij", [(2, 2, 3), (3,)]), ("ij->i", [(1, 3)]), ("i->", [(3,)]),
    ("ii->", [(3, 3)]), (",i->i", [(), (3,)]), ("i,->i", [(3,), ()]), ("ab,cd->abcd", [(2, 1), (1, 2)]), ("...,...->...", [(2, 3), (3,)]),
    ("ij...,jk...->ik...", [(2, 3, 2), (3, 2, 2)]), ("aab->b", [(2, 2, 3)]), ("ij,ji->", [(2, 3), (3, 2)]),
    # an operand that lacks TWO OR MORE of the broadcast ("...") dimensions, ellipsis trailing / leading / in the middle
    ("i...,i...->...", [(3,), (3, 2, 2)]), ("ij...,jk...->ik...", [(2, 3), (3, 2, 2, 3)]), ("...i,...i->...", [(3,), (2, 2, 3)]),
    ("i...j,j->i...", [(2, 3), (3,)]), ("i...j,ij->i...", [(2, 2, 3, 3), (2, 3)]), ("...,...->...", [(), (2, 3)]),
    # a LABELLED size-1 dimension that broadcasts against a larger dimension carrying the same label
    # single-operand axis permutations that are NOT their own inverse (cubic shapes: a forward/inverse mix-up keeps the shape)
    ("ijk->jki", [(2, 2, 2)]), ("ijk->kij", [(2, 3, 2)]), ("ijk->jki", [(1, 2, 3)]), ("b...->...b", [(2, 2, 2)]), ("...b->b...", [(2, 3, 2)]),
    ("ijkl->lijk", [(2, 2, 2, 2)]),
    # the operand's ellipsis at another position than the output's, operand lacking a broadcast dimension
    ("i...j,...j->...i", [(2, 3), (2, 3)]), ("i...j,...j->...i", [(2, 2, 3), (2, 3)]), ("...ij,j...->i...", [(2, 3), (3, 2)]),
    ("ij,ij->ij", [(1, 3), (2, 3)]), ("ij,ij->ij", [(2, 1), (2, 3)]),      # (the larger operand is always the second one) ("ij,jk->ik", [(2, 1), (3, 2)]), ("i,i->i", [(1,), (3,)]), ("ij,ij->", [(1, 1), (2, 3)]),
]


def _sublists(subs):
    """string convention -> interleaved convention (lists of ints / Ellipsis)."""
    ins, _, out = subs.partition("->")
    letters = sorted(set(c for c in subs if c.isalpha()))
    code = {c: i for i, c in enumerate(letters)}

    def conv(s):
        r = []
        s2 = s.replace("...", ".")
        for c in s2:
            r.append(Ellipsis if c == "." else code[c])
        return r

    return [conv(s) for s in ins.split(",")], (conv(out) if "->" in subs else None)


@spec("einsum", "K")
def s_einsum(ch, T):
    subs, shapes_ = ch.choose("program", EINSUMS)
    conv = ch.choose("convention", ["string", "interleaved"])
    names = ["x", "y", "z"][: len(shapes_)]
    ops = {n: T.arr(s) for n, s in zip(names, shapes_)}
    if conv == "string":
        expr = "np.einsum(%r, %s)" % (subs, ", ".join(names))
    else:
        ins, out = _sublists(subs)
        parts = []
        for n, l in zip(names, ins):
            parts += [n, repr(l).replace("Ellipsis", "...")]
        if out is not None:
            parts.append(repr(out).replace("Ellipsis", "..."))
        expr = "np.einsum(%s)" % ", ".join(parts)
    labels = {}
    s1b = False
    for sub, shp in zip(subs.split("->")[0].replace("...", "").split(","), shapes_):
        for c, d in zip(sub, shp[-len(sub):] if sub else ()):
            if c in labels and labels[c] != d and 1 in (labels[c], d):
                s1b = True
            labels[c] = max(labels.get(c, d), d)
    return Case("einsum", expr, ops, dict(convention=conv, ellipsis="..." in subs, explicit_out="->" in subs, size1_label_broadcast=s1b,
                                          nops=len(shapes_), repeated=any(len(set(s)) < len(s) for s in subs.split("->")[0].replace("...", "").split(","))),
                family="K")
