"""Family L: autograd.numpy.linalg (det, slogdet, inv, pinv, solve, norm, cholesky, eigh, eig, svd)."""
import numpy as onp

from .. import alphabets as A
from ..walk import Case
from .base import spec

BATCH = [(), (2,), (1, 2)]


def _mat(T, batch, n, m=None, sym=False, spd=False, cplx=None, sympoint=False):
    """Well-conditioned generic matrix: diagonally dominant (or SPD / symmetric) fill.
    sympoint: an exactly symmetric (not Hermitian) evaluation point of a function of a general matrix."""
    m = n if m is None else m
    a = T.arr(batch + (n, m), -1.0, 1.0, cplx=cplx)
    if n == m and sympoint:
        return (a + onp.swapaxes(a, -1, -2)) / 2.0 + (n + 1.5) * onp.eye(n)
    if n == m:
        if spd:
            a = a @ onp.conj(onp.swapaxes(a, -1, -2)) + (n + 1.0) * onp.eye(n)
        elif sym:
            a = a + onp.conj(onp.swapaxes(a, -1, -2)) + onp.diag(onp.arange(n) * 1.7)
        else:
            a = a + (n + 1.5) * onp.eye(n)
    return a


def _simple(name, expr_t, out_pick=""):
    @spec(name, "L")
    def s(ch, T, name=name):
        batch = ch.choose("batch", BATCH)
        n = ch.choose("n", [1, 2, 3])
        sp = n > 1 and ch.flag("symmetric_point")      # rules must not take short-cuts that only hold ON the symmetric subspace
        x = _mat(T, batch, n, sympoint=sp)
        return Case(name, expr_t, dict(x=x), dict(batch=len(batch), n=n, symmetric_point=sp), family="L", modes=("rev",))
    return s


_simple("det", "np.linalg.det(x)")
_simple("inv", "np.linalg.inv(x)")


@spec("slogdet", "L")
def s_slogdet(ch, T):
    batch = ch.choose("batch", BATCH)
    n = ch.choose("n", [1, 2, 3])
    pick = ch.choose("use", ["[1]", ".logabsdet", "", "[0]"])
    x = _mat(T, batch, n, sympoint=(n > 1 and ch.flag("symmetric_point")))
    if ch.flag("negative_det"):
        x = x.copy()
        x[..., 0, :] *= -1.0
    return Case("slogdet", "np.linalg.slogdet(x)%s" % pick, dict(x=x), dict(batch=len(batch), n=n, use=pick or "tuple"), family="L", modes=("rev",))


@spec("pinv", "L")
def s_pinv(ch, T):
    batch = ch.choose("batch", BATCH[:2])
    n, m = ch.choose("shape", [(2, 2), (2, 3), (3, 2), (1, 2), (3, 3), (1, 1)])
    return Case("pinv", "np.linalg.pinv(x)", dict(x=_mat(T, batch, n, m, sympoint=(n == m and n > 1 and ch.flag("symmetric_point")))), dict(batch=len(batch), shape="%dx%d" % (n, m)), family="L", modes=("rev",))


@spec("solve", "L")
def s_solve(ch, T):
    n = ch.choose("n", [1, 2, 3])
    cfg = ch.choose("batch_rhs", [((), (n,)), ((), (n, 2)), ((2,), (2, n, 1)), ((2,), (2, n, 2)), ((2,), (n, 2)), ((), (2, n, 2)),
                                 ((1, 2), (1, 2, n, 2)), ((2,), (n,))])
    batch, rhs = cfg
    return Case("solve", "np.linalg.solve(x, y)", dict(x=_mat(T, batch, n, sympoint=(n > 1 and ch.flag("symmetric_point"))), y=T.arr(rhs)),
                dict(n=n, batch=len(batch), rhs_rank=len(rhs), rhs_vector=(len(rhs) == 1),
                     batch_broadcast=(tuple(batch) != tuple(rhs[:-2] if len(rhs) > 1 else ()))), family="L", modes=("rev",))


@spec("norm", "L")
def s_norm(ch, T):
    shape = ch.choose("shape", T.shapes(None, 1))
    nd = len(shape)
    ords = [None, 2, 3, "fro", "nuc", 1, onp.inf, -1, 0.5, 4]
    o = ch.choose("ord", ords)
    axis_opts = [None] + A.int_axes(nd)
    if nd >= 2:
        axis_opts += [(0, 1), (1, 0), (-2, -1), (-1, -2)] + ([(0, 2), (2, 0), (-1, 0)] if nd >= 3 else [])
    axis = ch.choose("axis", axis_opts)
    kd = ch.choose("keepdims", [None, True])
    style = ch.choose("style", ["kw", "pos"] if (o is not None and kd is None) else ["kw"])
    so = "inf" if o is onp.inf else repr(o)
    parts = []
    if style == "pos":
        parts.append(so.replace("inf", "np.inf"))
        if axis is not None:
            parts.append(repr(axis))
    else:
        if o is not None:
            parts.append("ord=" + so.replace("inf", "np.inf"))
        if axis is not None:
            parts.append("axis=%r" % (axis,))
    if kd:
        parts.append("keepdims=True")
    expr = "np.linalg.norm(x%s)" % "".join(", " + p for p in parts)
    matrix = (nd == 2 and axis is None) or isinstance(axis, tuple)
    return Case("norm", expr, dict(x=T.arr(shape)), dict(rank=nd, ord=so, axis_sign=A.sign_of(axis), matrix_norm=matrix,
                                                         keepdims=kd, style=style), family="L")


@spec("cholesky", "L")
def s_cholesky(ch, T):
    if T.cplx:
        return None      # complex Hermitian / general input: the chosen observables are not gauge invariant there (see DESIGN)
    batch = ch.choose("batch", BATCH)
    n = ch.choose("n", [1, 2, 3])
    # the result depends on the lower triangle only; differentiate through symmetrisation so the Jacobian is well defined
    x = _mat(T, batch, n, spd=True)
    # (np.linalg.cholesky reads one triangle only while autograd returns the symmetric-perturbation gradient: only the
    # symmetrised composition has a convention-free Jacobian, so the raw call is not judged)
    sym = ch.choose("input", ["symmetrized"])
    expr = "np.linalg.cholesky((x + np.swapaxes(x, -1, -2)) / 2.0)" if sym == "symmetrized" else "np.linalg.cholesky(x)"
    return Case("cholesky", expr, dict(x=x), dict(batch=len(batch), n=n, input=sym), family="L", modes=("rev",))


@spec("eigh", "L")
def s_eigh(ch, T):
    if T.cplx:
        return None      # complex Hermitian / general input: the chosen observables are not gauge invariant there (see DESIGN)
    batch = ch.choose("batch", BATCH)
    n = ch.choose("n", [1, 2, 3])
    uplo = ch.choose("UPLO", [None, "L", "U", "u", "l"])      # NumPy accepts lower-case spellings
    obs = ch.choose("observable", ["w", "w2", "proj", "fun"])
    u = "" if uplo is None else ", UPLO=%r" % uplo
    e = "np.linalg.eigh(x%s)" % u
    # gauge-invariant observables of the eigen-decomposition
    expr = {"w": e + "[0]",
            "w2": "np.sum(%s.eigenvalues ** 2, axis=-1)" % e,
            "proj": "(lambda wv: wv[1][..., :, :1] * np.swapaxes(wv[1][..., :, :1], -1, -2))(%s)" % e,
            "fun": "(lambda wv: np.einsum('...ij,...j,...kj->...ik', wv[1], np.exp(wv[0]), wv[1]))(%s)" % e}[obs]
    return Case("eigh", expr, dict(x=_mat(T, batch, n, sym=True)), dict(batch=len(batch), n=n, UPLO=uplo, observable=obs), family="L", modes=("rev",))


@spec("eig", "L")
def s_eig(ch, T):
    if T.cplx:
        return None      # complex Hermitian / general input: the chosen observables are not gauge invariant there (see DESIGN)
    batch = ch.choose("batch", BATCH[:2])
    n = ch.choose("n", [1, 2, 3])
    obs = ch.choose("observable", ["trace_exp", "sum_real_w2", "v_squared", "reconstruct"])
    e = "np.linalg.eig(x)"
    # eigenvector observables invariant under the sign (real case) / scale of each column
    expr = {"trace_exp": "np.real(np.sum(np.exp(%s[0]), axis=-1))" % e,
            "sum_real_w2": "np.real(np.sum(%s[0] ** 2, axis=-1))" % e,
            "v_squared": "np.real(%s[1] ** 2)" % e,
            "reconstruct": "(lambda wv: np.real(np.matmul(wv[1] * wv[0][..., None, :], np.linalg.inv(wv[1]))))(%s)" % e}[obs]
    if obs in ("v_squared", "reconstruct") and n == 1:
        return None
    # symmetric-plus-small-skew so that eigenvalues are real, distinct and smooth
    x = _mat(T, batch, n, sym=True)
    return Case("eig", expr, dict(x=x), dict(batch=len(batch), n=n, observable=obs), family="L", modes=("rev",))


@spec("svd", "L")
def s_svd(ch, T):
    if T.cplx:
        return None      # complex Hermitian / general input: the chosen observables are not gauge invariant there (see DESIGN)
    batch = ch.choose("batch", BATCH[:2])
    n, m = ch.choose("shape", [(2, 2), (2, 3), (3, 2), (1, 2), (3, 3), (1, 1), (2, 1)])
    mode = ch.choose("mode", ["s-only", "usv-reconstruct", "usv-proj", "full-matrices", "s-default-full"])
    if mode == "s-only":
        expr = "np.linalg.svd(x, full_matrices=False, compute_uv=False)"
    elif mode == "s-default-full":
        expr = "np.linalg.svd(x, compute_uv=False)"
    elif mode == "usv-reconstruct":
        expr = "(lambda r: np.einsum('...ij,...j,...jk->...ik', r[0], r[1] ** 2, r[2]))(np.linalg.svd(x, full_matrices=False))"
    elif mode == "usv-proj":
        expr = "(lambda r: r[0][..., :, :1] * r[2][..., :1, :] * r[1][..., :1, None])(np.linalg.svd(x, False))"
    else:
        expr = "np.linalg.svd(x)[1]"
    return Case("svd", expr, dict(x=_mat(T, batch, n, m)), dict(batch=len(batch), shape="%dx%d" % (n, m), mode=mode,
                                                              aspect=("wide" if n < m else ("square" if n == m else "tall"))), family="L", modes=("rev",))
