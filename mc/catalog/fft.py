"""Family F: autograd.numpy.fft."""
from .. import alphabets as A
from ..walk import Case
from .base import spec

NORMS = [None, "backward", "ortho", "forward"]


def _args(style, pairs):
    """pairs: [(kwname, value or None)] in positional order; positional style needs all earlier ones."""
    if style == "kw":
        return "".join(", %s=%r" % (k, v) for k, v in pairs if v is not None)
    last = max([i for i, (k, v) in enumerate(pairs) if v is not None], default=-1)
    defaults = dict(n=None, s=None, axis=-1, norm=None)
    out = ""
    for i, (k, v) in enumerate(pairs[: last + 1]):
        out += ", %r" % (v if v is not None else defaults.get(k),)
    return out


def _fft1(name, real_in, real_out):
    @spec(name, "F")
    def s(ch, T, name=name):
        shape = ch.choose("shape", [(4,), (2, 4), (4, 2), (3,), (3, 3), (5, 4)] if T.quick else
                          [(4,), (2, 4), (4, 2), (2, 2, 4), (3,), (6,), (3, 3), (4, 4), (5, 4), (3, 2)])
        nd = len(shape)
        axis = ch.choose("axis", [None] + A.int_axes(nd))
        L = shape[-1 if axis is None else axis]
        nfull = (L - 1) * 2 if name == "irfft" else L
        n = ch.choose("n", [None, nfull, max(2, nfull - 2), 3] if T.quick else [None, nfull, max(2, nfull - 2), nfull + 2, 3])
        norm = ch.choose("norm", NORMS[:3] if T.quick else NORMS)
        style = ch.choose("style", ["kw", "pos"])
        if style == "pos" and axis is None and (norm is not None):
            axis = -1
        a = _args(style, [("n", n), ("axis", axis), ("norm", norm)])
        cplx_in = not real_in and ch.flag("complex_input")
        # irfft also accepts a real-dtype half-spectrum (e.g. a magnitude response): its gradient must then be real
        real_half_spectrum = name == "irfft" and ch.flag("real_dtype_input")
        x = T.arr(shape, cplx=(False if real_half_spectrum else (True if (name == "irfft" or cplx_in) else None)))
        return Case(name, "np.fft.%s(x%s)" % (name, a), dict(x=x),
                    dict(rank=nd, axis_sign=A.sign_of(axis), n=("none" if n is None else ("odd" if n % 2 else ("eq" if n == nfull else ("short" if n < nfull else "long")))),
                         norm=norm, style=style, complex_input=bool(cplx_in or name == "irfft")), family="F", modes=("rev",))
    return s


_fft1("fft", False, False)
_fft1("ifft", False, False)
_fft1("rfft", True, False)
_fft1("irfft", False, True)


def _fftn(name, two):
    @spec(name, "F")
    def s(ch, T, name=name, two=two):
        shape = ch.choose("shape", ([(2, 4), (4, 2), (3, 3)] if T.quick else [(2, 4), (4, 2), (2, 2, 4), (4, 4), (3, 3), (5, 4)]) + ([] if two else [(4,)]))
        nd = len(shape)
        ax_opts = [None, (-2, -1), (0, 1), (1, 0), (-1,), (0, 0), (0, -1)] if T.quick else [None, (-2, -1), (0, 1), (-1, -2), (1, 0), (-1,), (0,), (0, 0), (-1, -1), (0, -1)]
        if nd >= 3:
            ax_opts += [(0, 2), (0, 1, 2), (-3, -1)]
        ax_opts = [a for a in ax_opts if a is None or all(-nd <= i < nd for i in a)]
        axes = ch.choose("axes", ax_opts)
        eff = tuple(range(nd)) if (axes is None and not two) else ((-2, -1) if axes is None else axes)
        if two and nd < 2:
            return None
        base = []
        for i in eff:
            L = shape[i]
            base.append((L - 1) * 2 if (name.startswith("irfft") and i == eff[-1]) else L)
        s_opts = [None, tuple(base), tuple(max(2, b - 2) for b in base), tuple(b + 2 for b in base)]
        sv = ch.choose("s", s_opts)
        norm = ch.choose("norm", NORMS[:3] if T.quick else NORMS)
        style = ch.choose("style", ["kw", "pos"])
        if style == "pos" and norm is not None and axes is None:
            axes = eff
        a = _args(style, [("s", sv), ("axes", axes), ("norm", norm)])
        cplx = name.startswith("irfft") or (not name.startswith("rfft") and ch.flag("complex_input"))
        if name.startswith("irfft") and ch.flag("real_dtype_input"):
            cplx = False
        x = T.arr(shape, cplx=(True if cplx else False if name.startswith("irfft") else None))
        rep = axes is not None and len(set(i % nd for i in axes)) < len(axes)
        return Case(name, "np.fft.%s(x%s)" % (name, a), dict(x=x),
                    dict(rank=nd, axes=("none" if axes is None else ("repeated" if rep else A.sign_of(axes))),
                         s=("none" if sv is None else ("eq" if sv == tuple(base) else ("short" if sv[0] < base[0] else "long"))),
                         norm=norm, style=style, complex_input=bool(cplx)), family="F", modes=("rev",))
    return s


for _n, _two in [("fft2", True), ("ifft2", True), ("fftn", False), ("ifftn", False), ("rfft2", True), ("irfft2", True),
                 ("rfftn", False), ("irfftn", False)]:
    _fftn(_n, _two)


def _shift(name):
    @spec(name, "F")
    def s(ch, T, name=name):
        shape = ch.choose("shape", T.shapes(None, 1))
        nd = len(shape)
        axes = ch.choose("axes", [None] + A.int_axes(nd) + ([(0, 1), (-1, -2)] if nd >= 2 else []))
        style = ch.choose("style", ["kw", "pos"] if axes is not None else ["kw"])
        a = "" if axes is None else (", %r" % (axes,) if style == "pos" else ", axes=%r" % (axes,))
        return Case(name, "np.fft.%s(x%s)" % (name, a), dict(x=T.arr(shape)), dict(rank=nd, axis_sign=A.sign_of(axes)), family="F", modes=("rev",))
    return s


_shift("fftshift")
_shift("ifftshift")
