"""Family S: shape / selection / rearrangement primitives."""
import itertools

import numpy as onp

from .. import alphabets as A
from ..explore import Skip
from ..walk import Case
from .base import spec


def _x(ch, T, min_rank=0, rank=None, lo=0.3, hi=1.7):
    shape = ch.choose("shape", T.shapes(rank, min_rank))
    return shape, T.arr(shape, lo, hi)


def _prod(shape):
    n = 1
    for d in shape:
        n *= d
    return n


@spec("reshape", "S")
def s_reshape(ch, T):
    shape, x = _x(ch, T)
    n = _prod(shape)
    targets = [(-1,), (n,), tuple(reversed(shape)) or (1,), (1,) + shape, shape + (1,), (-1, 1)]
    if n % 2 == 0:
        targets += [(2, -1), (n // 2, 2)]
    tg = ch.choose("newshape", sorted(set(targets), key=repr))
    order = ch.choose("order", [None, "F"])
    form = ch.choose("form", ["func", "method-tuple", "method-varargs"])
    o = "" if order is None else ", order=%r" % order
    if form == "func":
        expr = "np.reshape(x, %r%s)" % (tg, o)
    elif form == "method-tuple":
        expr = "x.reshape(%r%s)" % (tg, o)
    else:
        expr = "x.reshape(%s%s)" % (", ".join(map(str, tg)), o)
    if not shape:
        x = onp.array(x)
    return Case("reshape", expr, dict(x=x), dict(rank=len(shape), order=order, form=form), family="S")


@spec("ravel", "S")
def s_ravel(ch, T):
    shape, x = _x(ch, T)
    order = ch.choose("order", [None, "C", "F"])
    form = ch.choose("form", ["np.ravel(x%s)", "x.ravel(%s)", "x.flatten(%s)"])
    o = "" if order is None else ("order=%r" % order)
    expr = form % ((", " + o) if (o and form.startswith("np")) else o)
    return Case("ravel", expr, dict(x=x), dict(rank=len(shape), order=order, form=form[:4]), family="S")


@spec("squeeze", "S")
def s_squeeze(ch, T):
    shape, x = _x(ch, T)
    nd = len(shape)
    ones = [a for a in range(nd) if shape[a] == 1]
    opts = [None] + ones + [a - nd for a in ones]
    if len(ones) >= 2:
        opts += [tuple(ones[:2]), tuple(a - nd for a in ones[:2])]
    axis = ch.choose("axis", opts)
    form = ch.choose("form", ["func", "method"])
    a = "" if axis is None else "axis=%r" % (axis,)
    expr = ("np.squeeze(x%s)" % ((", " + a) if a else "")) if form == "func" else "x.squeeze(%s)" % a
    return Case("squeeze", expr, dict(x=x), dict(rank=nd, axis_sign=A.sign_of(axis), form=form), family="S")


@spec("expand_dims", "S")
def s_expand_dims(ch, T):
    shape, x = _x(ch, T)
    nd = len(shape)
    opts = list(range(0, nd + 1)) + list(range(-nd - 1, 0)) + [(0, 1), (0, -1)]
    axis = ch.choose("axis", opts)
    style = ch.choose("style", ["pos", "kw"])
    expr = "np.expand_dims(x, %s%r)" % ("axis=" if style == "kw" else "", axis)
    return Case("expand_dims", expr, dict(x=x), dict(rank=nd, axis_sign=A.sign_of(axis), style=style), family="S")


@spec("transpose", "S")
def s_transpose(ch, T):
    shape, x = _x(ch, T)
    nd = len(shape)
    opts = [None] + A.perms(nd)[: (24 if T.quick else 120)] + [tuple(a - nd for a in p) for p in A.perms(nd)]
    if nd >= 2 and not T.quick:
        opts += [tuple((a - nd) if i % 2 else a for i, a in enumerate(p)) for p in A.perms(nd)]
    axes = ch.choose("axes", opts)
    forms = ["func"] + (["T"] if axes is None else []) + ["method"] + (["method-varargs"] if axes else [])
    form = ch.choose("form", forms)
    if form == "func":
        expr = "np.transpose(x)" if axes is None else "np.transpose(x, %r)" % (axes,)
    elif form == "T":
        expr = "x.T"
    elif form == "method":
        expr = "x.transpose()" if axes is None else "x.transpose(%r)" % (axes,)
    else:
        expr = "x.transpose(%s)" % ", ".join(map(str, axes))
    ident = axes is None or tuple(a % nd for a in axes) == tuple(range(nd)) if nd else True
    return Case("transpose", expr, dict(x=x), dict(rank=nd, axis_sign=A.sign_of(axes), form=form, identity_perm=ident), family="S")


@spec("swapaxes", "S")
def s_swapaxes(ch, T):
    shape, x = _x(ch, T, 1)
    nd = len(shape)
    a1 = ch.choose("axis1", A.int_axes(nd))
    a2 = ch.choose("axis2", A.int_axes(nd))
    form = ch.choose("form", ["func", "method"])
    expr = "np.swapaxes(x, %d, %d)" % (a1, a2) if form == "func" else "x.swapaxes(%d, %d)" % (a1, a2)
    return Case("swapaxes", expr, dict(x=x), dict(rank=nd, form=form), family="S")


@spec("moveaxis", "S")
def s_moveaxis(ch, T):
    shape, x = _x(ch, T, 1)
    nd = len(shape)
    opts = [(a, b) for a in A.int_axes(nd) for b in A.int_axes(nd)]
    if nd >= 2:
        opts += [((0, 1), (1, 0)), ((0, -1), (-1, 0)), ([0, 1], [-1, -2])]
    if nd >= 3:
        opts += [((0, 1), (2, 0)), ((0, 1, 2), (2, 0, 1)), ((-1, 0), (0, 1))]
    src, dst = ch.choose("src_dst", opts)
    expr = "np.moveaxis(x, %r, %r)" % (src, dst)
    return Case("moveaxis", expr, dict(x=x), dict(rank=nd, seq=not isinstance(src, int)), family="S")


@spec("rollaxis", "S")
def s_rollaxis(ch, T):
    shape, x = _x(ch, T, 1)
    nd = len(shape)
    axis = ch.choose("axis", A.int_axes(nd))
    start = ch.choose("start", [None] + list(range(0, nd + 1)) + [-1])
    expr = "np.rollaxis(x, %d%s)" % (axis, "" if start is None else ", %d" % start)
    return Case("rollaxis", expr, dict(x=x), dict(rank=nd, axis_sign=A.sign_of(axis), start_sign=A.sign_of(start)), family="S")


@spec("roll", "S")
def s_roll(ch, T):
    shape, x = _x(ch, T)
    nd = len(shape)
    opts = [(s, a) for s in (1, -1, 2) for a in [None] + A.int_axes(nd)]
    if nd >= 2:
        opts += [((1, 2), (0, 1)), ((1, -1), (-1, 0)), (1, (0, 1))]
    shift, axis = ch.choose("shift_axis", opts)
    style = ch.choose("style", ["kw", "pos"])
    if axis is None:
        expr = "np.roll(x, %r)" % (shift,)
    else:
        expr = "np.roll(x, %r, %s%r)" % (shift, "axis=" if style == "kw" else "", axis)
    return Case("roll", expr, dict(x=x), dict(rank=nd, axis_sign=A.sign_of(axis), tuple_shift=isinstance(shift, tuple), style=style), family="S")


@spec("flipud", "S")
def s_flipud(ch, T):
    shape, x = _x(ch, T, 1)
    return Case("flipud", "np.flipud(x)", dict(x=x), dict(rank=len(shape)), family="S")


@spec("fliplr", "S")
def s_fliplr(ch, T):
    shape, x = _x(ch, T, 2)
    return Case("fliplr", "np.fliplr(x)", dict(x=x), dict(rank=len(shape)), family="S")


@spec("rot90", "S")
def s_rot90(ch, T):
    shape, x = _x(ch, T, 2)
    k = ch.choose("k", [None, 1, 2, 3, -1, 0])
    axes = ch.choose("axes", [None, (1, 0), (0, -1)] if len(shape) >= 2 else [None])
    style = ch.choose("style", ["pos", "kw"] if k is not None else ["pos"])
    args = "" if k is None else (", %d" % k if style == "pos" else ", k=%d" % k)
    if axes is not None:
        args += ", axes=%r" % (axes,)
    return Case("rot90", "np.rot90(x%s)" % args, dict(x=x), dict(rank=len(shape), axes=axes, style=style, k=k), family="S")


@spec("diag", "S")
def s_diag(ch, T):
    shape = ch.choose("shape", T.shapes(2, 1))
    k = ch.choose("k", [None, 0, 1, -1])
    style = ch.choose("style", ["pos", "kw"] if k is not None else ["pos"])
    args = "" if k is None else (", %d" % k if style == "pos" else ", k=%d" % k)
    sq = len(shape) == 1 or shape[0] == shape[1]
    return Case("diag", "np.diag(x%s)" % args, dict(x=T.arr(shape)), dict(rank=len(shape), square=sq, k=("zero" if not k else "nonzero")), family="S")


@spec("diagonal", "S")
def s_diagonal(ch, T):
    shape, x = _x(ch, T, 2)
    nd = len(shape)
    offset = ch.choose("offset", [None, 0, 1, -1])
    pairs = [None] + [(a, b) for a in A.int_axes(nd) for b in A.int_axes(nd) if a % nd != b % nd]
    ax = ch.choose("axes", pairs)
    form = ch.choose("form", ["func", "method"])
    style = ch.choose("style", ["kw", "pos"])
    parts = []
    if style == "pos":
        if ax is not None:
            parts = ["%d" % (offset or 0), "%d" % ax[0], "%d" % ax[1]]
        elif offset is not None:
            parts = ["%d" % offset]
    else:
        if offset is not None:
            parts.append("offset=%d" % offset)
        if ax is not None:
            parts += ["axis1=%d" % ax[0], "axis2=%d" % ax[1]]
    a = ", ".join(parts)
    expr = ("np.diagonal(x%s)" % ((", " + a) if a else "")) if form == "func" else "x.diagonal(%s)" % a
    default_cfg = (ax is None and not offset)
    supported = ax == (-1, -2) and not offset
    return Case("diagonal", expr, dict(x=x), dict(rank=nd, default_axes=ax is None, offset=("zero" if not offset else "nonzero"),
                                                  form=form, style=style, make_diagonal_supported=supported,
                                                  square=shape[-1] == shape[-2] if nd >= 2 else True), family="S")


@spec("make_diagonal", "S")
def s_make_diagonal(ch, T):
    shape, x = _x(ch, T, 1)
    style = ch.choose("style", ["kw", "pos"])
    expr = "np.make_diagonal(x, offset=0, axis1=-1, axis2=-2)" if style == "kw" else "np.make_diagonal(x, 0, -1, -2)"
    ns = dict()
    case = Case("make_diagonal", expr, dict(x=x), dict(rank=len(shape), style=style), family="S")
    # numpy has no make_diagonal: reference implementation for the oracle
    case.ref = lambda x: x[..., None] * onp.eye(x.shape[-1])
    return case


@spec("trace", "S")
def s_trace(ch, T):
    shape, x = _x(ch, T, 2)
    offset = ch.choose("offset", [None, 0, 1, -1])
    form = ch.choose("form", ["func", "method"])
    style = ch.choose("style", ["pos", "kw"] if offset is not None else ["pos"])
    a = "" if offset is None else ("%d" % offset if style == "pos" else "offset=%d" % offset)
    # axis1 / axis2 (today rejected by the reverse rule - a loud failure; if a rule ever accepts them it must be right for every order and sign)
    axes = ch.choose("axes", [None, (0, 1), (1, 0), (-1, -2), (-2, -1)] + ([(0, 2), (2, 0), (-1, 0)] if len(shape) >= 3 else []))
    if axes is not None:
        if style == "pos" and offset is not None:
            a += ", %d, %d" % axes
        else:
            a += (", " if a else "") + "axis1=%d, axis2=%d" % axes
    expr = ("np.trace(x%s)" % ((", " + a) if a else "")) if form == "func" else "x.trace(%s)" % a
    return Case("trace", expr, dict(x=x), dict(rank=len(shape), form=form, style=style, axes=("none" if axes is None else A.sign_of(axes)),
                                               axes_swapped=bool(axes is not None and (axes[0] % len(shape)) > (axes[1] % len(shape)))), family="S")


def _tri(name):
    @spec(name, "S")
    def s(ch, T, name=name):
        shape, x = _x(ch, T, 1)
        k = ch.choose("k", [None, 0, 1, -1])
        style = ch.choose("style", ["pos", "kw"] if k is not None else ["pos"])
        a = "" if k is None else (", %d" % k if style == "pos" else ", k=%d" % k)
        return Case(name, "np.%s(x%s)" % (name, a), dict(x=x), dict(rank=len(shape), style=style), family="S")
    return s


_tri("triu")
_tri("tril")


@spec("tile", "S")
def s_tile(ch, T):
    shape, x = _x(ch, T)
    reps = ch.choose("reps", [1, 2, (2,), (1, 2), (2, 1), (2, 1, 2), (1, 1, 1, 2)])
    nreps = 1 if isinstance(reps, int) else len(reps)
    rel = "lt" if nreps < len(shape) else ("eq" if nreps == len(shape) else "gt")
    return Case("tile", "np.tile(x, %r)" % (reps,), dict(x=x), dict(rank=len(shape), reps_vs_ndim=rel), family="S")


@spec("repeat", "S")
def s_repeat(ch, T):
    shape, x = _x(ch, T)
    nd = len(shape)
    axis = ch.choose("axis", [None] + A.int_axes(nd))
    repeats = ch.choose("repeats", [1, 2, 3])
    style = ch.choose("style", ["kw", "pos"] if axis is not None else ["kw"])
    form = ch.choose("form", ["func", "method"])
    a = "" if axis is None else (", %d" % axis if style == "pos" else ", axis=%d" % axis)
    expr = "np.repeat(x, %d%s)" % (repeats, a) if form == "func" else "x.repeat(%d%s)" % (repeats, a)
    dim = "na" if axis is None else A.dim_class(shape[axis])
    return Case("repeat", expr, dict(x=x), dict(rank=nd, axis_sign=A.sign_of(axis), dim_at_axis=dim, form=form, style=style), family="S")


@spec("broadcast_to", "S")
def s_broadcast_to(ch, T):
    shape, x = _x(ch, T)
    cands = []
    for tgt in T.shapes():
        try:
            if onp.broadcast_shapes(shape, tgt) == tgt:
                cands.append(tgt)
        except ValueError:
            pass
    tgt = ch.choose("target", cands)
    return Case("broadcast_to", "np.broadcast_to(x, %r)" % (tgt,), dict(x=x),
                dict(rank=len(shape), extra_leading=len(tgt) > len(shape)), family="S")


def _atleast(name):
    @spec(name, "S")
    def s(ch, T, name=name):
        shape = ch.choose("shape", T.shapes())
        kind = ch.choose("kind", T.kinds_for(shape))
        two = ch.flag("two_arguments")
        if two:
            return Case(name, "np.%s(x, y)" % name, dict(x=T.arr(shape, kind=kind), y=T.arr(shape, kind=kind)),
                        dict(rank=len(shape), nargs=2), family="S", argnums=[(0,), (1,)])
        return Case(name, "np.%s(x)" % name, dict(x=T.arr(shape, kind=kind)), dict(rank=len(shape), nargs=1, kind=kind), family="S")
    return s


for _n in ("atleast_1d", "atleast_2d", "atleast_3d"):
    _atleast(_n)


@spec("pad", "S")
def s_pad(ch, T):
    shape, x = _x(ch, T, 1)
    nd = len(shape)
    widths = [1, 2, (1,), (1, 2), ((1, 2),), tuple((i, i + 1) for i in range(nd)), 0, [1, 0]]
    w = ch.choose("pad_width", widths)
    mode = ch.choose("mode", ["constant"])
    style = ch.choose("style", ["pos", "kw"])
    cv = ch.choose("constant_values", [None, 2.5, (1.5, -0.5)])
    extra = "" if cv is None else ", constant_values=%r" % (cv,)
    expr = "np.pad(x, %r, %s%r%s)" % (w, "mode=" if style == "kw" else "", mode, extra)
    return Case("pad", expr, dict(x=x), dict(rank=nd, width_form=type(w).__name__, style=style, constant_values=cv is not None), family="S")


def _split(name):
    @spec(name, "S")
    def s(ch, T, name=name):
        min_rank = dict(split=1, array_split=1, vsplit=2, hsplit=1, dsplit=3)[name]
        shape, x = _x(ch, T, min_rank)
        nd = len(shape)
        if name in ("split", "array_split"):
            axis = ch.choose("axis", [None] + A.int_axes(nd))
            ax = 0 if axis is None else axis
        else:
            axis = None
            ax = dict(vsplit=0, hsplit=(1 if nd > 1 else 0), dsplit=2)[name]
        n = shape[ax]
        secs = [1, n, [1], [0, 1], [1, 1]] + ([2] if name == "array_split" else [])
        sec = ch.choose("sections", secs)
        which = ch.choose("use", ["all", "first", "last"])
        a = "" if axis is None else ", axis=%d" % axis
        base = "np.%s(x, %r%s)" % (name, sec, a)
        expr = dict(all=base, first=base + "[0]", last=base + "[-1] * 2.0")[which]
        return Case(name, expr, dict(x=x), dict(rank=nd, axis_sign=A.sign_of(axis), use=which), family="S")
    return s


for _n in ("split", "array_split", "vsplit", "hsplit", "dsplit"):
    _split(_n)


@spec("diff", "S")
def s_diff(ch, T):
    shape, x = _x(ch, T, 1)
    nd = len(shape)
    n = ch.choose("n", [None, 1, 2])
    axis = ch.choose("axis", [None] + A.int_axes(nd))
    style = ch.choose("style", ["kw", "pos"])
    if style == "pos":
        parts = [] if (n is None and axis is None) else (["%d" % (n or 1)] + ([] if axis is None else ["%d" % axis]))
    else:
        parts = ([] if n is None else ["n=%d" % n]) + ([] if axis is None else ["axis=%d" % axis])
    expr = "np.diff(x%s)" % "".join(", " + p for p in parts)
    dim = shape[-1 if axis is None else axis]
    return Case("diff", expr, dict(x=x), dict(rank=nd, axis_sign=A.sign_of(axis), style=style, n_gt_dim_minus_1=((n or 1) > dim - 1 and (n or 1) > 1)), family="S")


@spec("gradient", "S")
def s_gradient(ch, T):
    shape = ch.choose("shape", [s for s in T.shapes(None, 1, dims=(2, 3, 4)) if min(s) >= 2] + [(5,), (4, 5)])
    nd = len(shape)
    axis = ch.choose("axis", [None] + A.int_axes(nd) + ([(0, 1), (1, 0)] if nd >= 2 else []))
    extra = ch.choose("extra", [None, "2.0", "edge_order=2"])
    parts = ([extra] if extra and "=" not in extra else []) + ([] if axis is None else ["axis=%r" % (axis,)]) + \
            ([extra] if extra and "=" in extra else [])
    expr = "np.gradient(x%s)" % "".join(", " + p for p in parts)
    single = nd == 1 or isinstance(axis, int)
    if not single:
        expr = "np.array(%s)" % expr if False else expr
    return Case("gradient", expr, dict(x=T.arr(shape)), dict(rank=nd, axis_sign=A.sign_of(axis), extra=extra, min_dim=min(shape)), family="S")


@spec("sort", "S")
def s_sort(ch, T):
    shape, x = _x(ch, T, 1)
    axis = ch.choose("axis", [None] + A.int_axes(len(shape)))
    expr = "np.sort(x%s)" % ("" if axis is None else ", axis=%d" % axis)
    return Case("sort", expr, dict(x=x), dict(rank=len(shape), axis_sign=A.sign_of(axis)), family="S")


@spec("partition", "S")
def s_partition(ch, T):
    shape, x = _x(ch, T, 1)
    axis = ch.choose("axis", [None] + A.int_axes(len(shape)))
    n = shape[-1 if axis is None else axis]
    kth = ch.choose("kth", [0, n - 1] if n > 1 else [0])
    expr = "np.partition(x, %d%s)" % (kth, "" if axis is None else ", axis=%d" % axis)
    return Case("partition", expr, dict(x=x), dict(rank=len(shape), axis_sign=A.sign_of(axis)), family="S")


@spec("clip", "S")
def s_clip(ch, T):
    shape = ch.choose("shape", T.shapes())
    kind = ch.choose("kind", T.kinds_for(shape))
    bounds = ch.choose("bounds", [(0.6, 1.3), (None, 1.0), (0.9, None), (-5.0, 5.0)])
    form = ch.choose("form", ["func", "method"] if kind == "arr" else ["func"])
    expr = "np.clip(x, %r, %r)" % bounds if form == "func" else "x.clip(%r, %r)" % bounds
    return Case("clip", expr, dict(x=T.arr(shape, kind=kind)), dict(rank=len(shape), none_bound=None in bounds, form=form), family="S")


@spec("full", "S")
def s_full(ch, T):
    shape = ch.choose("shape", [(), (2,), (2, 3), 3])
    fkind = ch.choose("fill", ["py", "np", "0d", "arr1", "arrb"])
    if fkind == "arr1":
        v = T.arr((1,))
    elif fkind == "arrb":
        tgt = (shape,) if isinstance(shape, int) else shape
        v = T.arr(tgt[-1:] if tgt else ())
    else:
        v = T.arr((), kind=fkind)
    return Case("full", "np.full(%r, x)" % (shape,), dict(x=v), dict(fill=fkind), family="S")


@spec("linspace", "S")
def s_linspace(ch, T):
    num = ch.choose("num", [None, 1, 2, 5])
    ep = ch.choose("endpoint", [None, False])
    style = ch.choose("style", ["pos", "kw"] if num is not None else ["pos"])
    kinds = ch.choose("kinds", [("py", "py"), ("np", "0d"), ("0d", "py")])
    args = "" if num is None else (", %d" % num if style == "pos" else ", num=%d" % num)
    if ep is not None:
        args += ", endpoint=False"
    x, y = T.arr((), 0.2, 0.9, kinds[0]), T.arr((), 1.1, 2.5, kinds[1])
    return Case("linspace", "np.linspace(x, y%s)" % args, dict(x=x, y=y), dict(num=num, endpoint=ep, style=style), family="S")


@spec("where", "S")
def s_where(ch, T):
    shs = [s_ for s_ in T.shapes(2)]
    sc = ch.choose("cond_shape", [(), (3,), (2, 3), (2, 1)])
    sa, sb = ch.choose("branch_shapes", [p for p in A.broadcast_pairs(shs) if _bc_ok(sc, p)][: (80 if T.quick else 400)])
    ka = ch.choose("kind_x", T.kinds_for(sa))
    kb = ch.choose("kind_y", T.kinds_for(sb))
    n = _prod(sc)
    cond = (onp.arange(n).reshape(sc) % 2 == 0) if sc else onp.array(True)
    x, y = T.arr(sa, kind=ka), T.arr(sb, kind=kb)
    return Case("where", "np.where(c, x, y)", dict(x=x, y=y), dict(kinds=ka + "," + kb, cond_rank=len(sc),
                                                                   scalar_branch=(sa == () or sb == ()) and (sa != sb or sc != ())),
                ns=dict(c=cond), pre="c = array(%r)" % (cond.tolist(),), family="S")


def _bc_ok(sc, p):
    try:
        onp.broadcast_shapes(sc, p[0], p[1])
        return True
    except ValueError:
        return False


@spec("astype", "S")
def s_astype(ch, T):
    shape, x = _x(ch, T)
    dt = ch.choose("dtype", ["float", "np.float64", "np.float32", "complex"])
    if not shape:
        x = onp.array(x)
    case = Case("astype", "x.astype(%s)" % dt, dict(x=x), dict(rank=len(shape), dtype=dt), family="S")
    # reduced precision output: finite differences of a float32-valued function carry noise ~ eps32/h, far above the comparison
    # tolerance, so only structure (C05) and primal transparency (C06) are judged there, never values
    case.value_oracle = dt != "np.float32"
    return case


@spec("getitem_basic", "S")
def s_getitem(ch, T):
    """A handful of index expressions so that the catalogue is complete; the full alphabet is C11's."""
    shape, x = _x(ch, T, 1)
    idx = ch.choose("index", ["0", "-1", "::2", "::-1", "..., 0", "None", "[0, 0]", "x > 1.0", "..., [0, 0]", "[0, 0], ...", "[0, -1, 0]"])
    return Case("__getitem__", "x[%s]" % idx, dict(x=x), dict(rank=len(shape), index=idx), family="S")
