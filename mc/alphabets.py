"""Finite alphabets enumerated by the configuration walks (DESIGN 2.2). Everything enumerated is named here."""
import itertools

import numpy as onp


def shapes(rank, dims=(1, 2, 3), min_rank=0):
    out = []
    for r in range(min_rank, rank + 1):
        out += list(itertools.product(dims, repeat=r))
    return out


def axes(nd, thorough=False, tuples=True):
    """None, every int in [-nd, nd), every tuple of >=2 distinct axes in all-positive and all-negative spelling."""
    out = [None] + list(range(nd)) + list(range(-nd, 0))
    if tuples:
        for k in range(2, nd + 1):
            for c in itertools.combinations(range(nd), k):
                out.append(c)
                out.append(tuple(a - nd for a in c))
                if thorough and k == 2:
                    out.append((c[1], c[0]))              # unsorted
                    out.append((c[0], c[1] - nd))          # mixed sign
    return out


def int_axes(nd):
    return list(range(nd)) + list(range(-nd, 0))


def broadcast_pairs(shs):
    out = []
    for a in shs:
        for b in shs:
            try:
                onp.broadcast_shapes(a, b)
            except ValueError:
                continue
            out.append((a, b))
    return out


def perms(nd):
    return list(itertools.permutations(range(nd)))


def sign_of(axis):
    if axis is None:
        return "none"
    if isinstance(axis, (tuple, list)):
        s = {("neg" if a < 0 else "pos") for a in axis}
        return "tuple-" + ("mixed" if len(s) > 1 else (s.pop() if s else "empty"))
    return "neg" if axis < 0 else "pos"


def dim_class(n):
    return "1" if n == 1 else "gt1"
