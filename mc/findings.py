"""Violation records, known-finding matching, replay artefacts (DESIGN 2.7)."""
import hashlib
import json
import os
import re

HERE = os.path.dirname(os.path.dirname(os.path.abspath(__file__)))
KNOWN_FILE = os.path.join(HERE, "KNOWN_FINDINGS.txt")
REPLAY_DIR = os.path.join(HERE, "replays")


def violation(prop, harness, prim, mode, kind, features=None, choices=None, config=None,
              observed=None, expected=None, repro=None, note=None):
    return dict(property=prop, harness=harness, prim=prim, mode=mode, kind=kind,
                features={k: str(v) for k, v in (features or {}).items()},
                choices=(choices if isinstance(choices, dict) else list(choices)) if choices is not None else None,
                config=config, observed=_js(observed), expected=_js(expected), repro=repro, note=note)


def _js(x):
    try:
        json.dumps(x)
        return x
    except TypeError:
        s = repr(x)
        return s if len(s) < 2000 else s[:2000] + "..."


def signature(v):
    return (v["harness"], v["prim"], v["mode"], v["kind"], tuple(sorted(v["features"].items())))


class Known:
    def __init__(self, line, fields, where, text):
        self.line, self.fields, self.where, self.text = line, fields, where, text
        self.hits = 0

    def matches(self, v):
        for k, want in self.fields.items():
            if want != "*" and str(v.get(k)) != want:
                return False
        for k, want in self.where.items():
            have = v["features"].get(k)
            if have is None:
                return False
            if want.startswith("~"):
                if not re.fullmatch(want[1:], have):
                    return False
            elif have != want:
                return False
        return True


def load_known(path=KNOWN_FILE):
    known, fixed = [], []
    if not os.path.exists(path):
        return known, fixed
    for raw in open(path):
        line = raw.strip()
        if not line or line.startswith("#"):
            continue
        if line.startswith("fixed:"):
            fixed.append(line)
            continue
        if not line.startswith("known:"):
            continue
        head, _, text = line[len("known:"):].partition("::")
        fields, where = {}, {}
        for tok in head.split():
            k, _, val = tok.partition("=")
            if k == "where":
                for fv in val.split(","):
                    if fv:
                        fk, _, fvv = fv.partition(":")
                        where[fk] = fvv
            else:
                fields[k] = val
        known.append(Known(line, fields, where, text.strip()))
    return known, fixed


def write_replay(v, count=1):
    d = os.path.join(REPLAY_DIR, v["property"])
    os.makedirs(d, exist_ok=True)
    h = hashlib.sha1(json.dumps([signature(v), v.get("choices")], default=str).encode()).hexdigest()[:12]
    path = os.path.join(d, h + ".json")
    rec = dict(v)
    rec["occurrences_in_run"] = count
    with open(path, "w") as f:
        json.dump(rec, f, indent=1, default=str)
    return path
