"""CLI of the verification machinery.

  ./check <ID> [--tier quick|thorough]     run one property check (exit 0 / 1 / 2)
  ./check replay <path>                    re-run one recorded violation from its replay file
  ./check all [--tier ...]                 run every property in sequence (summary table)
"""
import importlib
import hashlib
import json
import multiprocessing
import os
import shutil
import subprocess
import sys
import time
import traceback

from . import findings
from .explore import HarnessError

HERE = os.path.dirname(os.path.dirname(os.path.abspath(__file__)))
# evidence describes runs against /repo; a run against a scratch copy (VERIF_REPO, used for seeded changes) writes elsewhere
EVID = os.path.join(HERE, "evidence") if os.environ.get("VERIF_REPO", "/repo") in ("", "/repo") else os.path.join(HERE, "replays", "_scratch_evidence")
IDS = ["C%02d" % i for i in range(1, 21)]
MAX_CONFIRM_GROUPS = 12


class Ctx:
    def __init__(self, prop, tier, seed):
        self.prop, self.tier, self.seed = prop, tier, seed
        self.quick = tier == "quick"
        self.ncpu = min(16, os.cpu_count() or 1)
        self.t0 = time.time()

    def pool(self, n=None, initializer=None, initargs=()):
        ctx = multiprocessing.get_context("fork")
        return ctx.Pool(n or self.ncpu, initializer=initializer, initargs=initargs)

    def elapsed(self):
        return time.time() - self.t0


class Report:
    """What a property module returns from run(ctx)."""

    def __init__(self, level="exploration"):
        self.level = level
        self.cov = dict(evaluations=0, distinct_nontrivial=0, rule="", samples=[], states=0, transitions=0,
                        traces_validated_against_impl=0, exhaustive=True)
        self.violations = []
        self.assumptions = []
        self.notes = []

    def add(self, **kw):
        for k, v in kw.items():
            if isinstance(v, (int, float)) and not isinstance(v, bool) and isinstance(self.cov.get(k), (int, float)) \
                    and not isinstance(self.cov.get(k), bool):
                self.cov[k] += v
            else:
                self.cov[k] = v


def module_for(prop):
    return importlib.import_module("mc.props." + prop.lower())


def confirm_in_fresh_process(prop, tier, seed, reps):
    """Re-execute representative violations in a pristine interpreter. Returns list of bool/None."""
    if not reps:
        return []
    env = dict(os.environ)
    p = subprocess.run([sys.executable, "-m", "mc.runner", "_confirm", prop, tier, str(seed)],
                       input=json.dumps(reps, default=str), capture_output=True, text=True, env=env, cwd=HERE,
                       timeout=1800)
    last = [l for l in p.stdout.splitlines() if l.startswith("CONFIRM-RESULT ")]
    if p.returncode != 0 or not last:
        sys.stderr.write(p.stdout[-2000:] + p.stderr[-4000:])
        raise HarnessError("confirmation subprocess failed (rc=%s)" % p.returncode)
    return json.loads(last[-1][len("CONFIRM-RESULT "):])


def _confirm_main(prop, tier, seed):
    reps = json.loads(sys.stdin.read())
    mod = module_for(prop)
    ctx = Ctx(prop, tier, seed)
    out = []
    for v in reps:
        try:
            again = mod.replay(ctx, v)
        except HarnessError:
            raise
        if again is None:
            out.append(False)
        else:
            out.append(again["kind"] == v["kind"] and again["mode"] == v["mode"] and again["prim"] == v["prim"])
    print("CONFIRM-RESULT " + json.dumps(out))
    return 0


def validate_evidence(path):
    schema = "/root/.vp/EVIDENCE.schema.json"
    vt = shutil.which("python3-vt")
    if vt and os.path.exists(schema):
        code = ("import json,sys,jsonschema;"
                "jsonschema.validate(json.load(open(sys.argv[1])), json.load(open(sys.argv[2])))")
        p = subprocess.run([vt, "-c", code, path, schema], capture_output=True, text=True)
        if p.returncode != 0:
            raise HarnessError("evidence does not validate: " + p.stderr[-1500:])
        return "jsonschema"
    ev = json.load(open(path))
    for k in ("property_id", "tier", "seed", "level", "coverage", "wall_s"):
        if k not in ev:
            raise HarnessError("evidence lacks " + k)
    c = ev["coverage"]
    if not (c.get("evaluations", 0) >= 1 and c.get("distinct_nontrivial", 0) >= 2 and c.get("samples") and c.get("rule")):
        raise HarnessError("evidence coverage keys insufficient")
    return "manual"


def run_one(prop, tier, seed):
    t0 = time.time()
    ctx = Ctx(prop, tier, seed)
    mod = module_for(prop)
    rep = mod.run(ctx)
    # ---- group, confirm, match against known findings
    groups = {}
    for v in rep.violations:
        v["tier"], v["seed"] = tier, seed
        groups.setdefault(findings.signature(v), []).append(v)
    known, fixed = findings.load_known()
    known = [k for k in known if k.fields.get("property") == prop]
    new_groups, known_hits = [], {}
    # The exact set of leaves that violate inside the known classes was recorded per (property, tier, seed) on the tree the entries were written
    # for (known_leaves/): a violation that matches a known entry but is NOT in that set is a new violation hiding in a known class.
    rec_path = os.path.join(HERE, "known_leaves", "%s.%s.%d.txt" % (prop, tier, seed))
    recording = bool(os.environ.get("VERIF_RECORD_KNOWN"))
    recorded = None
    if not recording and os.path.exists(rec_path):
        recorded = set(l.strip() for l in open(rec_path) if l.strip())
    to_record = set()
    # identity of a leaf = what was called (expression, operand kinds and shapes, argnum, features), not the position in the choice tree: inserting a new
    # configuration into an alphabet must not invalidate the recorded sets
    digest = lambda x: hashlib.sha1(repr((x.get("harness"), x.get("mode"), x.get("kind"), json.dumps(x.get("config") if x.get("config") is not None else x.get("choices"), sort_keys=True, default=str),
                                          json.dumps(x.get("features"), sort_keys=True, default=str))).encode()).hexdigest()[:10]
    for sig, vs in groups.items():
        v = vs[0]
        k = next((k for k in known if k.matches(v)), None)
        if k is not None and recorded is not None:
            fresh = [x for x in vs if digest(x) not in recorded]
            if fresh:
                for x in fresh:
                    x["note"] = "matches a known-finding class but this leaf did not violate when the class was recorded"
                new_groups.append((repr(sig) + "|outside-recorded-known-set", fresh))
                vs = [x for x in vs if digest(x) in recorded]
                if not vs:
                    continue
                v = vs[0]
        if k is not None:
            if recording:
                to_record.update(digest(x) for x in vs)
            k.hits += len(vs)
            known_hits.setdefault(k.line, (k, v, 0))
            known_hits[k.line] = (k, known_hits[k.line][1], known_hits[k.line][2] + len(vs))
        else:
            new_groups.append((sig, vs))
    if recording:
        os.makedirs(os.path.dirname(rec_path), exist_ok=True)
        with open(rec_path, "w") as fh:
            fh.write("\n".join(sorted(to_record)) + ("\n" if to_record else ""))
    unreproduced = 0
    confirmed = []
    if new_groups and hasattr(mod, "replay") and not os.environ.get("VERIF_NO_CONFIRM"):
        head = new_groups[:MAX_CONFIRM_GROUPS]
        oks = confirm_in_fresh_process(prop, tier, seed, [vs[0] for _, vs in head])
        for (sig, vs), ok in zip(head, oks):
            if ok:
                confirmed.append((sig, vs))
            else:
                unreproduced += 1
        if not confirmed and len(new_groups) > len(head):
            # none of the first groups reproduced: try the rest rather than stay silent
            rest = new_groups[MAX_CONFIRM_GROUPS:MAX_CONFIRM_GROUPS * 4]
            oks = confirm_in_fresh_process(prop, tier, seed, [vs[0] for _, vs in rest])
            confirmed += [(g) for g, ok in zip(rest, oks) if ok]
        elif confirmed:
            confirmed += new_groups[MAX_CONFIRM_GROUPS:]  # siblings of confirmed ones, reported unconfirmed
    else:
        confirmed = new_groups
    lines = []
    for k, v, n in known_hits.values():
        lines.append("KNOWN-FINDING: property=%s %s [%d occurrence(s); e.g. %s]" % (
            prop, k.text, n, json.dumps(v.get("config"), default=str)[:200]))
    for sig, vs in confirmed:
        path = findings.write_replay(vs[0], len(vs))
        lines.append("VIOLATION property=%s replay=%s" % (prop, path))
        lines.append("  # %s prim=%s mode=%s kind=%s features=%s x%d" % (
            vs[0]["harness"], vs[0]["prim"], vs[0]["mode"], vs[0]["kind"], vs[0]["features"], len(vs)))
    stale = [k.line for k in known if k.hits == 0]
    if os.environ.get("VERIF_REPO") is None:
        try:       # per-tier record of entries that matched nothing (tools/prune_known.py intersects the tiers); ignored by git
            sd = os.path.join(HERE, "replays", "_stale")
            os.makedirs(sd, exist_ok=True)
            with open(os.path.join(sd, "%s.%s.txt" % (prop, tier)), "w") as fh:
                fh.write("\n".join(stale) + "\n")
        except Exception:
            pass
    # ---- evidence
    cov = dict(rep.cov)
    cov["samples"] = cov.get("samples", [])[:10]
    cov["known_findings_matched"] = [dict(entry=k.text, occurrences=n) for k, v, n in known_hits.values()]
    cov["known_findings_stale"] = stale
    cov["unreproduced_candidates"] = unreproduced
    cov["violation_groups"] = len(confirmed)
    if rep.notes:
        cov["notes"] = rep.notes
    ev = dict(property_id=prop, tier=tier, seed=seed, level=rep.level, coverage=cov,
              assumptions=rep.assumptions, wall_s=round(time.time() - t0, 3), violations=len(confirmed))
    os.makedirs(EVID, exist_ok=True)
    path = os.path.join(EVID, prop + ".json")
    tmp = path + ".tmp%d" % os.getpid()
    with open(tmp, "w") as f:
        json.dump(ev, f, indent=1, default=str)
    os.replace(tmp, path)
    validate_evidence(path)
    for l in lines:
        print(l)
    c = rep.cov
    print("%s %s: evaluations=%s states=%s transitions=%s distinct_nontrivial=%s exhaustive=%s known=%d new=%d wall=%.1fs" % (
        prop, tier, c.get("evaluations"), c.get("states"), c.get("transitions"), c.get("distinct_nontrivial"),
        c.get("exhaustive"), len(known_hits), len(confirmed), time.time() - t0))
    return 1 if confirmed else 0


def replay_file(path):
    v = json.load(open(path))
    prop = v["property"]
    mod = module_for(prop)
    ctx = Ctx(prop, v.get("tier", "quick"), int(v.get("seed", 0)))
    again = mod.replay(ctx, v)
    if again is None:
        print("replay: property %s HELD on the recorded case (%s)" % (prop, path))
        return 0
    print(json.dumps(again, indent=1, default=str))
    print("VIOLATION property=%s replay=%s" % (prop, path))
    return 1


def main(argv):
    if not argv:
        print(__doc__)
        return 2
    tier = os.environ.get("VERIF_TIER", "quick")
    if "--tier" in argv:
        i = argv.index("--tier")
        tier = argv[i + 1]
        argv = argv[:i] + argv[i + 2:]
    if tier not in ("quick", "thorough"):
        print("bad tier", tier)
        return 2
    seed = int(os.environ.get("VERIF_SEED", "0") or 0)
    cmd = argv[0]
    try:
        if cmd == "_confirm":
            return _confirm_main(argv[1], argv[2], int(argv[3]))
        if cmd == "replay":
            return replay_file(argv[1])
        if cmd == "all":
            rc = 0
            for p in IDS:
                try:
                    importlib.import_module("mc.props." + p.lower())
                except ImportError:
                    continue
                r = subprocess.call([sys.executable, "-m", "mc.runner", p, "--tier", tier])
                rc = max(rc, r)
            return rc
        prop = cmd.upper()
        if prop not in IDS:
            print("unknown property", cmd)
            return 2
        return run_one(prop, tier, seed)
    except HarnessError as e:
        traceback.print_exc()
        print("HARNESS-ERROR %s" % e)
        return 2
    except Exception as e:  # a crash of the machinery is a broken check, not a verdict
        traceback.print_exc()
        print("HARNESS-ERROR unexpected %s: %s" % (type(e).__name__, e))
        return 2


if __name__ == "__main__":
    sys.exit(main(sys.argv[1:]))
