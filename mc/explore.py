"""Stateless choice-tree explorer (DESIGN 2.1).

A harness is `h(ch)`; every decision is `ch.choose(label, options)` with option 0 the default.
`leaves(h, fixed)` enumerates *all* leaves below a fixed prefix by depth-first "odometer"
search: replay prefix exactly, take option 0 afterwards, then increment the deepest choice that
still has an alternative.  One execution per leaf.  A replayed position whose label or option
count differs from the run it was derived from is a HarnessError (nondeterminism), never a verdict.
"""
import hashlib
import json


class HarnessError(Exception):
    """The harness itself misbehaved (nondeterminism, bad replay). Exit code 2."""


class Skip(Exception):
    """The leaf is outside the space (e.g. NumPy itself rejects the call)."""


class Chooser:
    __slots__ = ("prefix", "choices", "counts", "labels", "values")

    def __init__(self, prefix=()):
        self.prefix = list(prefix)
        self.choices = []
        self.counts = []
        self.labels = []
        self.values = []

    def choose(self, label, options):
        if not isinstance(options, (list, tuple)):
            options = list(options)
        n = len(options)
        if n == 0:
            raise Skip("empty alphabet for %s" % label)
        i = len(self.choices)
        c = self.prefix[i] if i < len(self.prefix) else 0
        if not 0 <= c < n:
            raise HarnessError("replay diverged at %d (%s): choice %d of %d" % (i, label, c, n))
        self.choices.append(c)
        self.counts.append(n)
        self.labels.append(label)
        v = options[c]
        self.values.append(v)
        return v

    def flag(self, label):
        return self.choose(label, (False, True))

    def decoded(self):
        return [(l, _short(v)) for l, v in zip(self.labels, self.values)]


def _short(v):
    s = repr(v)
    return s if len(s) < 120 else s[:117] + "..."


def leaf_id(name, choices):
    return hashlib.sha1(json.dumps([name, list(choices)]).encode()).hexdigest()[:16]


def first_level(h):
    """Number of options at the first choice point of harness h (for partitioning into jobs)."""

    class _Stop(Exception):
        pass

    class _Probe(Chooser):
        def choose(self, label, options):
            options = list(options)
            raise _Stop(len(options))

    try:
        h(_Probe())
    except _Stop as s:
        return s.args[0]
    except Skip:
        return 0
    return 1


def leaves(h, fixed=(), max_leaves=None, cls=None):
    """Yield (chooser, result_or_Skip) for every leaf below `fixed`. Exhaustive unless capped."""
    fixed = list(fixed)
    prefix = list(fixed)
    prev_labels = None
    n = 0
    cls = cls or Chooser
    while True:
        ch = cls(prefix)
        try:
            out = h(ch)
        except Skip as s:
            out = s
        if prev_labels is not None:
            k = min(len(prefix) - 1, len(prev_labels), len(ch.labels))
            if ch.labels[:k] != prev_labels[:k]:
                raise HarnessError("labels changed while replaying prefix %r" % (prefix,))
        prev_labels = ch.labels
        yield ch, out
        n += 1
        if max_leaves is not None and n >= max_leaves:
            return
        i = len(ch.choices) - 1
        while i >= len(fixed) and ch.choices[i] + 1 >= ch.counts[i]:
            i -= 1
        if i < len(fixed):
            return
        prefix = ch.choices[:i] + [ch.choices[i] + 1]


def run_leaf(h, choices):
    ch = Chooser(choices)
    try:
        out = h(ch)
    except Skip as s:
        out = s
    if len(ch.choices) < len(choices):
        raise HarnessError("replay consumed only %d of %d choices" % (len(ch.choices), len(choices)))
    return ch, out


def prefixes(h, depth):
    """All choice prefixes of length <= depth (shorter only when the leaf ends earlier): job partition."""

    class _Cut(Exception):
        pass

    class _C(Chooser):
        def choose(self, label, options):
            if len(self.choices) >= depth:
                raise _Cut()
            return Chooser.choose(self, label, options)

    def hh(ch):
        try:
            h(ch)
        except _Cut:
            pass

    return [list(ch.choices) for ch, _ in leaves(hh, cls=_C)]
