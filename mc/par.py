"""Parallel exhaustive walk of a choice-tree harness: partition by choice prefixes, one job per prefix.

A property module exposes  HARNESSES = {name: factory(quick, seed) -> (h, judge)}  where
  h(ch)            makes every decision through ch.choose(...) and runs the real code,
  judge(ch, out)   -> dict(v=violation-or-None | list, nontrivial=bool, outcome=hashable,
                           sample=dict-or-None, counts={name: int})
"""
import collections
import importlib
import time

from .explore import HarnessError, Skip, leaves, prefixes, run_leaf

MAX_V_PER_JOB = 60


def _get(modname, hname, quick, seed):
    mod = importlib.import_module(modname)
    return mod.HARNESSES[hname](quick, seed)


def _job(args):
    modname, hname, quick, seed, prefix, cap = args
    h, judge = _get(modname, hname, quick, seed)
    n = trans = nontriv = skipped = nv = 0
    vios, samples = [], []
    outcomes = set()
    counts = collections.Counter()
    capped = False
    for ch, out in leaves(h, prefix, max_leaves=cap):
        if isinstance(out, Skip):
            skipped += 1
            continue
        n += 1
        trans += len(ch.choices)
        j = judge(ch, out)
        if j.get("nontrivial"):
            nontriv += 1
        if j.get("outcome") is not None and len(outcomes) < 5000:
            outcomes.add(j["outcome"])
        for k, c in (j.get("counts") or {}).items():
            counts[k] += c
        v = j.get("v")
        if v:
            for vv in (v if isinstance(v, list) else [v]):
                nv += 1
                if len(vios) < MAX_V_PER_JOB:
                    vios.append(vv)
        if j.get("sample") is not None and (not samples or n in (17, 171)):
            samples[:] = [j["sample"]]          # prefer a leaf from inside the job over the all-defaults first leaf
    if cap is not None and n + skipped >= cap:
        capped = True
    return dict(n=n, trans=trans, nontriv=nontriv, skipped=skipped, nv=nv, vios=vios, samples=samples,
                outcomes=list(outcomes)[:200], counts=dict(counts), capped=capped)


def run_harness(ctx, rep, modname, hname, depth=1, cap_per_job=None, pool=None, deadline=None):
    return run_harnesses(ctx, rep, modname, [hname], depth, cap_per_job, pool)[hname]


def _prefix_job(args):
    modname, hname, quick, seed, depth = args
    h, judge = _get(modname, hname, quick, seed)
    c1, o1 = run_leaf(h, [])
    c2, o2 = run_leaf(h, [])
    if c1.labels != c2.labels or c1.counts != c2.counts:
        raise HarnessError("harness %s nondeterministic on its first leaf" % hname)
    return hname, prefixes(h, depth)


def run_harnesses(ctx, rep, modname, hnames, depth=1, cap_per_job=None, pool=None):
    """Walk the listed harnesses completely (or up to cap_per_job leaves per prefix) on one pool; aggregate into rep."""
    own = pool is None
    if own:
        pool = ctx.pool()
    aggs = {}
    try:
        jobs = []
        for hname, pf in pool.imap_unordered(_prefix_job, [(modname, hn, ctx.quick, ctx.seed, depth) for hn in hnames]):
            aggs[hname] = dict(n=0, trans=0, nontriv=0, skipped=0, nv=0, capped=0, jobs=len(pf), outcomes=set(),
                               counts=collections.Counter())
            jobs += [(modname, hname, ctx.quick, ctx.seed, p, cap_per_job) for p in pf]
        # big harnesses first for load balance is unknown a priori: interleave by harness instead
        jobs.sort(key=lambda j: (len(j[4]) and j[4][-1], j[1]))
        for r, job in _imap_with_job(pool, jobs):
            agg = aggs[job[1]]
            for k in ("n", "trans", "nontriv", "skipped", "nv"):
                agg[k] += r[k]
            agg["capped"] += bool(r["capped"])
            rep.violations += r["vios"]
            agg["outcomes"].update(map(_hashable, r["outcomes"]))
            agg["counts"].update(r["counts"])
            if len(rep.cov["samples"]) < 10 and r["samples"] and (len(rep.cov["samples"]) < 4 or job[1] not in
                                                                   [s_.get("harness") for s_ in rep.cov["samples"]]):
                s = dict(r["samples"][0])
                s["harness"] = job[1]
                rep.cov["samples"].append(s)
    finally:
        if own:
            pool.close()
            pool.join()
    per = rep.cov.setdefault("per_harness", {})
    for hname in hnames:
        agg = aggs[hname]
        rep.add(evaluations=agg["n"], states=agg["n"], transitions=agg["trans"], traces_validated_against_impl=agg["n"],
                distinct_nontrivial=agg["nontriv"])
        per[hname] = dict(leaves=agg["n"], skipped=agg["skipped"], nontrivial=agg["nontriv"], jobs=agg["jobs"],
                          raw_violations=agg["nv"], distinct_outcomes=len(agg["outcomes"]), capped_jobs=agg["capped"],
                          counts=dict(agg["counts"]))
        if agg["capped"]:
            rep.cov["exhaustive"] = False
            rep.cov.setdefault("caps_hit", []).append("%s: %d of %d jobs stopped at %s leaves" % (hname, agg["capped"], agg["jobs"], cap_per_job))
    return aggs


def _job_tagged(args):
    return _job(args), args


def _imap_with_job(pool, jobs):
    for r, job in pool.imap_unordered(_job_tagged, jobs, chunksize=1):
        yield r, job


def _hashable(x):
    if isinstance(x, list):
        return tuple(_hashable(i) for i in x)
    return x


def replay_generic(modname, ctx, v):
    h, judge = _get(modname, v["harness"], ctx.quick, ctx.seed)
    ch, out = run_leaf(h, v["choices"])
    if isinstance(out, Skip):
        return None
    j = judge(ch, out)
    vv = j.get("v")
    if not vv:
        return None
    if isinstance(vv, list):
        from .findings import signature
        for x in vv:
            if signature(x) == signature(v):
                return x
        return vv[0]
    return vv
